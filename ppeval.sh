#!/bin/bash
# Development aid (false-alarm probe): apply a property-preserving patch in a scratch worktree and
# run the quick checks against it through VERIF_REPO; any VIOLATION / non-zero exit is printed.
#   ./ppeval.sh <patch.diff> [ids...]
patch=$1; shift
ids="$@"
wt=/tmp/pp/run.$$
git -C /repo worktree add --detach $wt HEAD >/dev/null 2>&1 || exit 2
if ! git -C $wt apply $patch; then echo "$patch: does not apply"; git -C /repo worktree remove --force $wt; exit 2; fi
if [ -z "$ids" ]; then
  ids="C01 C02 C03 C04 C06 C07 C08 C09 C10 C11 C12 C13 C16 C17 C18"
  if grep -q '^+++ b/cmd/parquetgen' $patch; then ids="$ids C05 C14 C15"; fi
fi
mkdir -p /tmp/pp/out
for id in $ids; do
  out=$(cd /verif && VERIF_REPO=$wt VERIF_OUT_DIR=/tmp/pp/out ./run check $id --tier quick 2>&1); code=$?
  if [ $code -ne 0 ] || echo "$out" | grep -q '^VIOLATION'; then
    echo "!! $(basename $(dirname $(dirname $patch)))/$(basename $patch) $id exit=$code"
    echo "$out" | grep -E '^  key|HARNESS' | sort | uniq -c | sort -rn | head -6 | cut -c1-220
  else
    echo "ok $(basename $(dirname $(dirname $patch)))/$(basename $patch) $id"
  fi
done
git -C /repo worktree remove --force $wt
