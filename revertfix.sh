#!/bin/bash
# Development aid: revert one fix: commit in a scratch worktree and run the check(s) that must
# report the defect again ("a fixed entry suppresses nothing").
#   ./revertfix.sh <commit> <ID> [<ID> ...]
c=$1; shift
wt=/tmp/revfix.$$
git -C /repo worktree add --detach $wt HEAD >/dev/null 2>&1 || exit 2
if ! git -C $wt revert --no-commit $c >/dev/null 2>&1; then echo "$c: revert does not apply cleanly"; git -C /repo worktree remove --force $wt; exit 0; fi
mkdir -p /tmp/revfix.out
for id in "$@"; do
  out=$(cd /verif && VERIF_REPO=$wt VERIF_OUT_DIR=/tmp/revfix.out ./run check $id --tier quick 2>&1); code=$?
  n=$(echo "$out" | grep -c '^VIOLATION')
  echo "revert $c -> $id: exit=$code violations=$n  $(echo "$out" | grep -m1 '^  key' | cut -c1-120)"
done
git -C /repo worktree remove --force $wt
