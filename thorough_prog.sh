#!/bin/bash
# Development aid: thorough runs of the program checks with candidate dumps.
cd "$(dirname "$0")"
for id in C15 C14 C05; do
  start=$(date +%s)
  out=$(VERIF_FINDINGS_CANDIDATES=/tmp/thorough_cand_$id.jsonl ./run check $id --tier thorough 2>&1); code=$?
  echo "$out" | grep -v '^KNOWN-FINDING' | tail -1 | sed "s/^/[exit $code, $(( $(date +%s) - start ))s] /"
  echo "$out" | grep -E '^VIOLATION|HARNESS|^  key' | head -8
done
