#!/bin/bash
# Development aid: cross matrix "seeded change x check" without touching /repo.
#   ./matrix.sh <seed-dir-name> [check ids...]     e.g. ./matrix.sh C01b C01 C02
# Uses a scratch worktree of /repo under /tmp/mx and VERIF_REPO / VERIF_OUT_DIR.
seed=$1; shift
checks=${@:-$(cd /verif && ./run list | tr " " "\n" | grep -v C17 | tr "\n" " ")}
wt=/tmp/mx/$seed
patch=/verif/seeded/$seed/patch.diff
[ -f /verif/seeded/$seed/patch_ported.diff ] && patch=/verif/seeded/$seed/patch_ported.diff
mkdir -p /tmp/mx/out/$seed
git -C /repo worktree add -q --detach $wt HEAD || exit 2
git -C $wt apply $patch || { echo "$seed: patch does not apply"; git -C /repo worktree remove --force $wt; exit 2; }
for id in $checks; do
  out=$(cd /verif && VERIF_REPO=$wt VERIF_OUT_DIR=/tmp/mx/out/$seed ./run check $id --tier quick 2>&1); code=$?
  if echo "$out" | grep -q '^VIOLATION'; then r=CAUGHT; elif [ $code -eq 0 ]; then r=silent; else r="exit$code"; fi
  echo "$seed $id $r"
done
git -C /repo worktree remove --force $wt
