#!/bin/bash
# Development aid: run every check of a tier on the current tree and summarise.
tier=${1:-quick}
cd /verif
for id in $(./run list); do
  out=$(./run check $id --tier $tier 2>&1); code=$?
  echo "$out" | grep -v '^KNOWN-FINDING' | tail -1 | sed "s/^/[exit $code] /"
  echo "$out" | grep -E '^VIOLATION|HARNESS' | head -5
done
