#!/bin/bash
# Development aid: apply a seeded change to /repo, run checks against it, undo it.
#   ./seedtest.sh <patch.diff> <ID> [<ID> ...]      (tier via VERIF_TIER, default quick)
# Exit status 0 when at least one listed check reports a VIOLATION.
set -u
patch="$1"; shift
cd /repo || exit 2
if [ -n "$(git status --porcelain)" ]; then echo "seedtest: /repo is not clean" >&2; exit 2; fi
git apply "$patch" || { echo "seedtest: patch does not apply" >&2; exit 2; }
caught=1
for id in "$@"; do
  out=$(cd /verif && ./run check "$id" --tier "${VERIF_TIER:-quick}" 2>&1)
  code=$?
  echo "$out" | grep -v '^KNOWN-FINDING' | grep -E 'VIOLATION|^  key|HARNESS|^C[0-9][0-9] ' | cut -c1-220 | head -12
  echo "== $id exit=$code"
  if echo "$out" | grep -q '^VIOLATION'; then caught=0; fi
done
git apply -R "$patch"
git status --porcelain | grep -q . && { echo "seedtest: /repo not clean after revert!" >&2; git status --porcelain >&2; }
rm -f /verif/replays/*
exit $caught
