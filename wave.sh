#!/bin/bash
# Development aid: for a directory of seed worktrees (<dir>/CNN with OUT/patch.diff applied)
# verify each seed (suite passes, demo fails with / passes without) and run the property's quick
# check against the worktree through VERIF_REPO.
#   ./wave.sh /tmp/seed5 C01 C02 ...
dir=$1; shift
mkdir -p $dir/out
for id in "$@"; do
  v=$($dir/verify.sh $id 2>&1 | tail -1)
  out=$(cd /verif && VERIF_REPO=$dir/$id VERIF_OUT_DIR=$dir/out ./run check $id --tier quick 2>&1); code=$?
  if echo "$out" | grep -q '^VIOLATION'; then r=CAUGHT; elif [ $code -eq 0 ]; then r=MISSED; else r="exit$code"; fi
  echo "== $v  -> check $id: $r"
  echo "$out" | grep -v '^KNOWN' | grep -E '^  key|HARNESS' | head -3 | cut -c1-200
done
