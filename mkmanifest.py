#!/usr/bin/env python3
"""Regenerates MANIFEST.json from the table below (run after adding a check)."""
import json, os, subprocess

HOOK_COMMITS = ["d1f6e81"]  # /repo commit adding verif_export.go and internal/rle/verif_state.go

# id -> (level category, technique, text, note, design_ref)
CHECKS = {
 "C01": ("exploration", "bounded exhaustive input/configuration enumeration on the real generated code",
   "Every record sequence over a structural alphabet x every partition into Write batches x every page size x codec, plus optional-bool packing, value extremes, run-structured long inputs (incl. long lists), every record structure up to a node bound, nested lists in every length combination, huge strings, many row groups and zero-row files, is written and read back by the real generated code; nothing is sampled, so every failure below the bounds is found.",
   "Values outside the alphabets and sizes beyond the bounds are not covered; equality is nil==empty slice, floats by bits.", "4/C01"),
 "C02": ("exploration", "bounded exhaustive enumeration + independent reference validator",
   "Every file of C01's exhaustive families plus nested/same-named-group shapes is parsed by an independent reference implementation that follows the footer's offsets and separately walks the file from byte 4; all footer and page-header claims are compared with the bytes.",
   "The reference parser (mc/refpq) is the trusted oracle; lenient where the property is silent (file_offset, encodings list, total_byte_size compressed or uncompressed).", "4/C02"),
 "C03": ("exploration", "exhaustive structure enumeration vs reference Dremel striping",
   "Every nil/non-nil and list-length combination up to a node bound, singly and in ordered pairs, nested lists in every length combination and run-structured long inputs are written; the levels and values the reference parser decodes per column are compared with the Dremel paper's striping, and a specification-only assembly must return the records.",
   "Catalogue shapes only (others under C05); reference striping pinned to the Dremel paper example.", "4/C03"),
 "C04": ("exploration", "deviation-bounded enumeration of physical encodings by an independent writer",
   "For fixed logical content an independent writer emits every file within <= d deviations from a baseline physical plan (all legal level run plans, page splits incl. a menu of splits for 20-record contents, codecs, snappy stream shapes, optional thrift content, legal BIT_PACKED labels, row groups without rows) and the generated reader must return the records; d=1 exhaustive, d=2 over a reduced set, plus long run families and pages above 32 KiB / 64 KiB / 1 MiB in every codec.",
   "Foreign writer and reference parser cross-checked on every file; snappy/gzip libraries trusted; zero padding bits.", "4/C04"),
 "C05": ("exploration", "exhaustive program enumeration over a bounded struct grammar (generate, compile, run against reference oracles)",
   "Every struct definition of the grammar (quick: 2073 shapes of depth<=2 with <=2 leaves plus leaf-type x context plus every shape with two like groups declared with one shared struct type; thorough: depth<=3 / 3 leaves) goes through the freshly built parquetgen twice, the Go compiler, and the round-trip, validity and striping oracles on every value up to a node bound; each failing (shape, class) must be in the committed known-findings list.",
   "Shapes beyond the grammar bound are not covered; the generator's remaining genuine defects (two-level chains through a repeated group) are recorded per shape in known_findings.jsonl.", "4/C05"),
 "C06": ("model_checking", "explicit-state exploration of the writer API (all Add/Write histories to a depth bound) against a list-of-batches model",
   "Every history over {Add, Write} up to length L, with Close applied at every state, for every page size 1..k and codec, over multi-column and single-column record types, is executed on the real writer and compared with a list-of-batches reference model (file validity, row groups, per-row-group contents, reader output).",
   "Histories beyond L are not explored; every model trace is executed on the implementation.", "4/C06"),
 "C07": ("model_checking", "breadth-first search of the real RLE encoder's control state + exhaustive sequence/plan enumeration with a strict specification decoder",
   "BFS over the encoder's control state (reaching the 63-group closure 504 values deep), every level sequence up to a per-width length bound, run-structured families at every alignment, and the library decoder on every legal run plan of every short sequence.",
   "State abstraction argued in DESIGN.md; bit-level packing is decided completely by C17.", "4/C07"),
 "C08": ("fault_enumeration", "deviation-bounded enumeration of the source's Read answers",
   "Every fixed chunk size, every single short read at every call index (pairs in thorough), data-with-EOF, with and without io.ByteReader, over workloads incl. chunks whose page headers shrink and grow: the reader must return the same records.",
   "Short reads deliver >= 1 byte.", "4/C08"),
 "C09": ("fault_enumeration", "exhaustive enumeration of the failing sink call index",
   "For every workload and codec, every index k of the failing sink Write call, six fault kinds (nothing / half / all of the bytes accepted, transient or sticky; pairs in thorough): the API call during which it failed must return an error.",
   "The caller abandons the writer after the first error.", "4/C09"),
 "C10": ("fault_enumeration", "exhaustive enumeration of the failing source call index",
   "For every workload and codec, every index k of the failing Read/Seek/ReadByte call, four error kinds (sentinel, io.EOF, io.ErrUnexpectedEOF, a Temporary()/Timeout() error), transient/sticky/with-data (pairs in thorough): error reported or all rows correct, never a panic.",
   "Rows delivered before a reported error are not judged.", "4/C10"),
 "C11": ("fault_enumeration", "exhaustive enumeration of truncation points",
   "Every strict prefix of every workload file (incl. zero-row-group and one-record files, files closed with more than a page of records still pending, and files whose data embeds a footer image followed by its length so that some prefixes end like a complete file without the magic) is opened and iterated, and for a grid of (row groups x rows in the last row group) every cut inside the last 12 bytes: an error must be reported, no panic.",
   "No workload stores the image of a complete file in a value; an accepted prefix is a violation even when it is a complete valid file in its own right (only the writer can have produced it).", "4/C11"),
 "C12": ("exploration", "exhaustive ordered page contents over per-type alphabets vs reference page decode",
   "Every ordered page content up to length m over each type's alphabet with nulls interleaved, for all 24 column kinds and nested contexts (every sequence of record states for 8 types x required/optional below optional and repeated groups): null_count exact, min/max (when present) bound every value in the type's order.",
   "Absent min/max accepted.", "4/C12"),
 "C13": ("model_checking", "stateless schedule exploration (CHESS-style DFS over choice prefixes, deviation-bounded) of the real code under a cooperative scheduler + separate free-running -race pass",
   "2-3 independent writer/reader instances run as goroutines under a cooperative scheduler whose points are the pool Get/Put, sink and source operations (pool Get is also a data choice); every execution with <= b preemptions/pool deviations is enumerated for two pool modes and six prior pool contents, and each instance's output must equal its solo run on an ideal pool; use-after-Put and double-Put monitors; plus, for every sink/source call index k, an instance whose environment fails at k followed by a healthy instance. The data-race clause is decided by a free-running -race pass of the same bodies.",
   "Buffers are instance-private between Get and Put (violations of that are what the monitors and poison-on-Put detect); the race clause is dynamic detection on sampled schedules.", "4/C13"),
 "C14": ("exploration", "exhaustive program enumeration of decorations of base struct definitions, byte-for-byte differential against the base",
   "Every insertion of an excluded field (every position, every struct, a menu of Go types and names), every replacement of a run of fields by an embedded struct, and every such embedding paired with an excluded field next to (or inside) the embedded struct is generated, compiled and run next to its base definition; files must be byte-identical for every enumerated value and excluded fields must scan back as zero.",
   "One decoration per program except embedding x excluded-field pairs; base definitions are asserted to pass the C05 oracles first.", "4/C14"),
 "C15": ("exploration", "two-stage exhaustive program enumeration (write with the source struct, regenerate from the file, read back)",
   "Every source struct of the non-repeated grammar (column names unique, and leaf names reused across parents) is generated and compiled, writes files for every record structure up to a node bound with extreme values, and parquetgen -parquet regenerates struct + reader from the file; the regenerated schema must equal what the reference parser finds in the file and the regenerated reader must return exactly the written values.",
   "Source structs whose own writer fails produce no file and are counted, not judged.", "4/C15"),
 "C16": ("exploration", "bounded exhaustive file enumeration vs independent parser, field-by-field",
   "ReadMetaData, PageHeaders and PageHeadersAtOffset (every chunk start and every page start) are compared field by field with the reference parser's footer tree and sequential walk over the exhaustive file families, through a plain reader and through sources that fragment their reads.",
   "Library-written files only.", "4/C16"),
 "C17": ("exploration", "complete enumeration of the finite domain on the real code",
   "Every one of the 2^8+2^16+2^24+2^32 value groups / byte groups of width 1-4 is pushed through the real internal/bitpack and compared with the specification's LSB-first little-endian layout and both round trips (and a result kept across a later call must stay unchanged); the domain is finite, so this is a complete decision, not a bound.",
   "Trusts the closed-form layout oracle (self-checked against a bit-by-bit packer) and the thin verif-tag re-export wrappers.", "4/C17"),
 "C18": ("exploration", "exhaustive placement of one unsupported feature at every (row group, column, page) of valid foreign files",
   "Every unsupported page type, value encoding, level encoding and codec, genuinely encoded where feasible, at every position of base files with two row groups and with a row group without rows in the middle: the reader must report an error, never rows, never panic; negative controls must be accepted.",
   "One feature per file.", "4/C18"),
}
PENDING = {}

def main():
    here = os.path.dirname(os.path.abspath(__file__))
    props = [json.loads(l) for l in open(os.path.join(here, "properties.jsonl"))]
    checks, na = [], []
    for p in props:
        i = p["id"]
        if i in CHECKS:
            cat, tech, text, note, ref = CHECKS[i]
            checks.append({
              "property_id": i,
              "quick_cmd": "./run check %s --tier quick" % i,
              "thorough_cmd": "./run check %s --tier thorough" % i,
              "evidence_file": "/verif/evidence/%s.json" % i,
              "replay_cmd_template": "./run replay {path}",
              "engine": "mc",
              "level_claimed": {"category": cat, "text": text, "design_ref": "DESIGN.md section " + ref},
              "level_note": note,
              "technique": tech,
            })
        else:
            na.append({"property_id": i, "reason": PENDING.get(i, "check not built yet (work in progress; the design in DESIGN.md section 4 applies)")})
    m = {
      "version": 1,
      "setup_cmd": "./run setup",
      "hooks": {
        "guard": "verif",
        "enable": "go build -tags verif (vrun passes it on every build of /repo packages and of the check binaries)",
        "baseline_off_cmd": "for m in $(cat /w/out/gomods.txt); do MF=$(cd /repo/$m && . /w/out/goenv.sh && gomodflag); (cd /repo/$m && go test $MF -json -vet=off -count=1 -timeout 25m ./...); done",
        "source_commits": HOOK_COMMITS,
        "add_only": True,
      },
      "engines": [
        {"name": "mc", "path": "/verif/mc", "serves_properties": sorted(CHECKS),
         "kind_free_text": "hand-written bounded exhaustive explorers (input/config enumeration, API-history BFS, environment-fault enumeration, cooperative-scheduler DFS, program enumeration) driving the real code rebuilt from /repo, with an independent reference Parquet implementation (mc/refpq) as oracle"},
      ],
      "checks": checks,
      "not_applicable": na,
      "notes": "Every check rebuilds parquetgen, the generated reader/writer packages and the check binary from /repo's working tree (-tags verif). Known findings: /verif/known_findings.jsonl.",
    }
    json.dump(m, open(os.path.join(here, "MANIFEST.json"), "w"), indent=1)
    print("wrote MANIFEST.json: %d checks, %d not_applicable" % (len(checks), len(na)))

main()
