#!/usr/bin/env python3
"""Regenerates MANIFEST.json from the table below (run after adding a check)."""
import json, os, subprocess

HOOK_COMMITS = ["d1f6e81"]

# id -> (level category, technique, text, note, design_ref)
CHECKS = {
 "C17": ("exploration", "complete enumeration of the finite domain on the real code",
   "Every one of the 2^8+2^16+2^24+2^32 value groups / byte groups of width 1-4 is pushed through the real internal/bitpack and compared with the specification's LSB-first little-endian layout and both round trips; the domain is finite, so this is a complete decision, not a bound.",
   "Trusts the closed-form layout oracle (self-checked against a bit-by-bit packer) and the thin verif-tag re-export wrappers.", "4/C17"),
}

PENDING = {}

def main():
    here = os.path.dirname(os.path.abspath(__file__))
    props = [json.loads(l) for l in open(os.path.join(here, "properties.jsonl"))]
    checks, na = [], []
    for p in props:
        i = p["id"]
        if i in CHECKS:
            cat, tech, text, note, ref = CHECKS[i]
            checks.append({
              "property_id": i,
              "quick_cmd": "./run check %s --tier quick" % i,
              "thorough_cmd": "./run check %s --tier thorough" % i,
              "evidence_file": "/verif/evidence/%s.json" % i,
              "replay_cmd_template": "./run replay {path}",
              "engine": "mc",
              "level_claimed": {"category": cat, "text": text, "design_ref": "DESIGN.md section " + ref},
              "level_note": note,
              "technique": tech,
            })
        else:
            na.append({"property_id": i, "reason": PENDING.get(i, "check not built yet (work in progress; the design in DESIGN.md section 4 applies)")})
    m = {
      "version": 1,
      "setup_cmd": "./run setup",
      "hooks": {
        "guard": "verif",
        "enable": "go build -tags verif (vrun passes it on every build of /repo packages and of the check binaries)",
        "baseline_off_cmd": "for m in $(cat /w/out/gomods.txt); do MF=$(cd /repo/$m && . /w/out/goenv.sh && gomodflag); (cd /repo/$m && go test $MF -json -vet=off -count=1 -timeout 25m ./...); done",
        "source_commits": HOOK_COMMITS,
        "add_only": True,
      },
      "engines": [
        {"name": "mc", "path": "/verif/mc", "serves_properties": sorted(CHECKS),
         "kind_free_text": "hand-written bounded exhaustive explorers (input/config enumeration, API-history BFS, environment-fault enumeration, cooperative-scheduler DFS, program enumeration) driving the real code rebuilt from /repo, with an independent reference Parquet implementation (mc/refpq) as oracle"},
      ],
      "checks": checks,
      "not_applicable": na,
      "notes": "Every check rebuilds parquetgen, the generated reader/writer packages and the check binary from /repo's working tree (-tags verif). Known findings: /verif/known_findings.jsonl.",
    }
    json.dump(m, open(os.path.join(here, "MANIFEST.json"), "w"), indent=1)
    print("wrote MANIFEST.json: %d checks, %d not_applicable" % (len(checks), len(na)))

main()
