module github.com/valyala/bytebufferpool

go 1.20
