// Package bytebufferpool is an API-compatible stand-in for
// github.com/valyala/bytebufferpool used only by the C13 schedule explorer
// (selected with go build -modfile=go.sched.mod).  Every pool and buffer
// operation is a scheduling point owned by the harness, and Get is also a
// data choice: any pooled buffer or a fresh one, which models sync.Pool's
// freedom to drop entries and its per-P caches.
package bytebufferpool

import (
	"fmt"
	"io"
)

// Hooks are installed by the harness.  With nil hooks the package behaves as
// an ordinary (single-threaded) pool.
var (
	// HookPoint is called before every pool/buffer operation.
	HookPoint func(label string)
	// HookChoose picks one of n alternatives (0 is the default).
	HookChoose func(n int, label string) int
	// HookViolation reports a misuse detected by the shim's monitors.
	HookViolation func(msg string)
	// HookObserve records something the running thread observed (what Get
	// handed it), for state hashing.
	HookObserve func(what string)
)

// Mode selects the pool semantics for the current execution.
var Mode = Reuse

const (
	// Ideal: Get always returns a fresh zeroed buffer, Put forgets the buffer.
	Ideal = iota
	// Reuse: Put keeps the buffer on the pool's free list, Get chooses.
	Reuse
	// ReusePoison: as Reuse, and Put overwrites B[:cap] with 0xDB.
	ReusePoison
)

// Pool represents byte buffer pool.
type Pool struct {
	free       []*ByteBuffer
	registered bool
	ID         int
}

var pools []*Pool

// Pools lists every pool that has been used, in order of first use.
func Pools() []*Pool { return pools }

// ResetAll empties every pool's free list (between executions).
func ResetAll() {
	for _, p := range pools {
		p.free = nil
	}
	serial = 0
}

// Seed puts a buffer with the given capacity, filled with 0xDB, on the free list.
func (p *Pool) Seed(capacity int) {
	p.register()
	b := &ByteBuffer{B: make([]byte, capacity), serial: nextSerial()}
	for i := range b.B {
		b.B[i] = 0xDB
	}
	b.B = b.B[:0]
	b.released = true
	b.pool = p
	p.free = append(p.free, b)
}

// FreeCaps describes the free list (for state hashing).
func (p *Pool) FreeCaps() []int {
	out := make([]int, len(p.free))
	for i, b := range p.free {
		out[i] = cap(b.B)
	}
	return out
}

var serial int

func nextSerial() int { serial++; return serial }

func (p *Pool) register() {
	if !p.registered {
		p.registered = true
		p.ID = len(pools)
		pools = append(pools, p)
	}
}

func point(label string) {
	if HookPoint != nil {
		HookPoint(label)
	}
}

func violation(format string, a ...interface{}) {
	if HookViolation != nil {
		HookViolation(fmt.Sprintf(format, a...))
	}
}

var defaultPool Pool

// Get returns an empty byte buffer from the default pool.
func Get() *ByteBuffer { return defaultPool.Get() }

// Put returns byte buffer to the default pool.
func Put(b *ByteBuffer) { defaultPool.Put(b) }

// Get returns new byte buffer with zero length.
func (p *Pool) Get() *ByteBuffer {
	p.register()
	point(fmt.Sprintf("pool%d.Get", p.ID))
	if Mode == Ideal || len(p.free) == 0 {
		observe("fresh")
		return &ByteBuffer{serial: nextSerial(), pool: p}
	}
	// alternatives: 0 = most recently released buffer (what an uncontended
	// sync.Pool would hand back), 1..k-1 = the older ones, k = a fresh buffer
	n := len(p.free) + 1
	k := 0
	if HookChoose != nil {
		k = HookChoose(n, fmt.Sprintf("pool%d.Get", p.ID))
	}
	if k == n-1 {
		observe("fresh")
		return &ByteBuffer{serial: nextSerial(), pool: p}
	}
	idx := len(p.free) - 1 - k
	b := p.free[idx]
	p.free = append(p.free[:idx], p.free[idx+1:]...)
	b.released = false
	observe(b.describe())
	return b
}

func observe(what string) {
	if HookObserve != nil {
		HookObserve(what)
	}
}

// describe summarises a buffer for state hashing: capacity and a hash of
// everything within capacity (stale bytes included).
func (b *ByteBuffer) describe() string {
	h := uint64(1469598103934665603)
	for _, c := range b.B[:cap(b.B)] {
		h ^= uint64(c)
		h *= 1099511628211
	}
	return fmt.Sprintf("%d:%x", cap(b.B), h)
}

// StateKey summarises every pool's free list (order included).
func StateKey() string {
	s := ""
	for _, p := range pools {
		s += fmt.Sprintf("p%d[", p.ID)
		for _, b := range p.free {
			s += b.describe() + ","
		}
		s += "]"
	}
	return s
}

// Put releases byte buffer obtained via Get to the pool.
func (p *Pool) Put(b *ByteBuffer) {
	p.register()
	point(fmt.Sprintf("pool%d.Put", p.ID))
	if b.released {
		violation("buffer #%d put into a pool twice", b.serial)
		return
	}
	b.Reset0()
	b.released = true
	if Mode == Ideal {
		return
	}
	if Mode == ReusePoison {
		full := b.B[:cap(b.B)]
		for i := range full {
			full[i] = 0xDB
		}
	}
	p.free = append(p.free, b)
}

// ByteBuffer provides byte buffer, which can be used for minimizing
// memory allocations.
type ByteBuffer struct {
	// B is a byte buffer to use in append-like workloads.
	B []byte

	serial   int
	released bool
	pool     *Pool
}

// BufferPoints makes every ByteBuffer method a scheduling point as well.
// Buffers are private to the instance that obtained them between Get and Put,
// so these points only matter for executions that the use-after-Put monitor
// flags anyway; they are off by default (partial-order reduction) and switched
// on for a dedicated scenario.
var BufferPoints = false

func (b *ByteBuffer) use(op string) {
	if BufferPoints {
		point("buf." + op)
	}
	if b.released {
		violation("ByteBuffer.%s on buffer #%d after it was returned to its pool", op, b.serial)
	}
}

// Len returns the size of the byte buffer.
func (b *ByteBuffer) Len() int { b.use("Len"); return len(b.B) }

// ReadFrom implements io.ReaderFrom.
func (b *ByteBuffer) ReadFrom(r io.Reader) (int64, error) {
	b.use("ReadFrom")
	p := b.B
	nStart := int64(len(p))
	nMax := int64(cap(p))
	n := nStart
	if nMax == 0 {
		nMax = 64
		p = make([]byte, nMax)
	} else {
		p = p[:nMax]
	}
	for {
		if n == nMax {
			nMax *= 2
			bNew := make([]byte, nMax)
			copy(bNew, p)
			p = bNew
		}
		nn, err := r.Read(p[n:])
		n += int64(nn)
		if err != nil {
			b.B = p[:n]
			n -= nStart
			if err == io.EOF {
				return n, nil
			}
			return n, err
		}
	}
}

// WriteTo implements io.WriterTo.
func (b *ByteBuffer) WriteTo(w io.Writer) (int64, error) {
	b.use("WriteTo")
	n, err := w.Write(b.B)
	return int64(n), err
}

// Bytes returns b.B, i.e. all the bytes accumulated in the buffer.
func (b *ByteBuffer) Bytes() []byte { b.use("Bytes"); return b.B }

// Write implements io.Writer - it appends p to ByteBuffer.B
func (b *ByteBuffer) Write(p []byte) (int, error) {
	b.use("Write")
	b.B = append(b.B, p...)
	return len(p), nil
}

// WriteByte appends the byte c to the buffer.
func (b *ByteBuffer) WriteByte(c byte) error {
	b.use("WriteByte")
	b.B = append(b.B, c)
	return nil
}

// WriteString appends s to ByteBuffer.B.
func (b *ByteBuffer) WriteString(s string) (int, error) {
	b.use("WriteString")
	b.B = append(b.B, s...)
	return len(s), nil
}

// Set sets ByteBuffer.B to p.
func (b *ByteBuffer) Set(p []byte) { b.use("Set"); b.B = append(b.B[:0], p...) }

// SetString sets ByteBuffer.B to s.
func (b *ByteBuffer) SetString(s string) { b.use("SetString"); b.B = append(b.B[:0], s...) }

// String returns string representation of ByteBuffer.B.
func (b *ByteBuffer) String() string { b.use("String"); return string(b.B) }

// Reset makes ByteBuffer.B empty.
func (b *ByteBuffer) Reset() { b.use("Reset"); b.B = b.B[:0] }

// Reset0 is Reset without a scheduling point (used by Put).
func (b *ByteBuffer) Reset0() { b.B = b.B[:0] }
