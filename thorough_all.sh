#!/bin/bash
# Development aid: run every thorough check in sequence (for vp run).
cd "$(dirname "$0")"
for id in ${@:-C01 C02 C03 C04 C06 C07 C08 C09 C10 C11 C12 C16 C17 C18 C13 C14 C15 C05}; do
  start=$(date +%s)
  if [ "$id" = C05 ] || [ "$id" = C14 ] || [ "$id" = C15 ]; then
    out=$(VERIF_FINDINGS_CANDIDATES=/tmp/thorough_cand_$id.jsonl ./run check $id --tier thorough 2>&1); code=$?
  else
    out=$(./run check $id --tier thorough 2>&1); code=$?
  fi
  echo "$out" | grep -v '^KNOWN-FINDING' | tail -1 | sed "s/^/[exit $code, $(( $(date +%s) - start ))s] /"
  echo "$out" | grep -E '^VIOLATION|HARNESS|^  key' | head -8
done
