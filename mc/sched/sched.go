// Package sched is a CHESS-style stateless schedule explorer: threads run as
// goroutines under a cooperative scheduler, every hooked operation is a
// scheduling point, pool Get is additionally a data choice, and the explorer
// enumerates every execution with at most a given number of deviations
// (preemptions + non-default data choices) by depth-first search over choice
// prefixes.  Built only with -modfile=go.sched.mod (it installs the hooks of
// the bytebufferpool shim).
package sched

import (
	"fmt"
	"runtime/debug"
	"strings"

	pool "github.com/valyala/bytebufferpool"
)

// Body is a thread body.
type Body func()

type event struct {
	tid  int
	done bool
	// at a data choice the thread asks the scheduler for a decision
	chooseN int
	label   string
	panicv  string
}

// PointRec is one recorded choice point of an execution.
type PointRec struct {
	Kind    byte // 's' scheduling, 'd' data
	Options int  // number of alternatives
	Choice  int
	Cost    int // cumulative deviations before this point
	// for scheduling points: whether the running thread was still enabled
	RunningEnabled bool
	Label          string
	Thread         int
	// Key is the global state at this point (threads' positions and
	// observation hashes + pool contents); filled when state hashing is on.
	Key string
}

// Exec is one completed execution.
type Exec struct {
	Points     []PointRec
	Choices    []int
	Deviations int
	Violations []string
	Panics     []string
	Diverged   string
	Steps      int
}

type thread struct {
	id    int
	wake  chan int // value = data choice answer (or ignored)
	done  bool
	label string // label of the point it is parked at
	steps int    // scheduling points passed
	obs   uint64 // hash of everything this thread observed so far
}

// StateHashing makes Run record a state key at every choice point.
var StateHashing = false

// Observe mixes an observation of the running thread into its hash.
func Observe(what string) {
	if cur == nil {
		return
	}
	t := cur.threads[current]
	for i := 0; i < len(what); i++ {
		t.obs ^= uint64(what[i])
		t.obs *= 1099511628211
	}
	t.obs ^= 0xff
	t.obs *= 1099511628211
}

func (rs *runState) stateKey() string {
	var sb strings.Builder
	for _, t := range rs.threads {
		fmt.Fprintf(&sb, "t%d:%v:%d:%x|", t.id, t.done, t.steps, t.obs)
	}
	sb.WriteString(pool.StateKey())
	return sb.String()
}

// run state (one execution at a time per process)
var (
	cur     *runState
	current int
)

type runState struct {
	threads []*thread
	events  chan event
	prefix  []int
	exec    *Exec
	horizon int
}

func init() {
	pool.HookPoint = Point
	pool.HookChoose = Choose
	pool.HookObserve = Observe
	pool.HookViolation = func(msg string) {
		if cur != nil {
			cur.exec.Violations = append(cur.exec.Violations, msg)
		}
	}
}

// Point is a scheduling point: the running thread yields to the scheduler.
func Point(label string) {
	if cur == nil {
		return
	}
	t := cur.threads[current]
	t.label = label
	t.steps++
	cur.events <- event{tid: t.id, label: label}
	<-t.wake
}

// DataChoices switches the pool's data choices on (default) or off (Get
// always answers with the most recently released buffer).
var DataChoices = true

// Choose is a data choice made by the running thread.
func Choose(n int, label string) int {
	if cur == nil || n <= 1 || !DataChoices {
		return 0
	}
	t := cur.threads[current]
	cur.events <- event{tid: t.id, chooseN: n, label: label}
	return <-t.wake
}

func (rs *runState) nextChoice(options int, kind byte, label string, runningEnabled bool, tid int) int {
	i := len(rs.exec.Choices)
	c := 0
	if i < len(rs.prefix) {
		c = rs.prefix[i]
		if c >= options {
			rs.exec.Diverged = fmt.Sprintf("replay diverged at point %d (%s): choice %d of %d options", i, label, c, options)
			c = 0
		}
	}
	key := ""
	if StateHashing {
		key = string(kind) + label + "|" + rs.stateKey()
	}
	rs.exec.Points = append(rs.exec.Points, PointRec{Kind: kind, Options: options, Choice: c, Cost: rs.exec.Deviations, RunningEnabled: runningEnabled, Label: label, Thread: tid, Key: key})
	rs.exec.Choices = append(rs.exec.Choices, c)
	if c != 0 {
		if kind == 'd' || runningEnabled {
			rs.exec.Deviations++
		}
	}
	return c
}

// Run executes the bodies under the choice prefix (default choice 0 after it).
func Run(bodies []Body, prefix []int, horizon int) *Exec {
	rs := &runState{events: make(chan event), prefix: prefix, exec: &Exec{}, horizon: horizon}
	cur = rs
	defer func() { cur = nil }()
	for i, b := range bodies {
		t := &thread{id: i, wake: make(chan int)}
		rs.threads = append(rs.threads, t)
		go func(t *thread, b Body) {
			<-t.wake
			defer func() {
				ev := event{tid: t.id, done: true}
				if r := recover(); r != nil {
					st := string(debug.Stack())
					if i := strings.Index(st, "panic("); i >= 0 {
						st = st[i:]
					}
					if len(st) > 1200 {
						st = st[:1200]
					}
					ev.panicv = fmt.Sprintf("panic in thread %d: %v\n%s", t.id, r, st)
				}
				rs.events <- ev
			}()
			b()
		}(t, b)
	}
	running := -1 // thread that ran last (still parked at a point => enabled)
	for {
		// enabled threads in canonical order: the running thread first, then ascending ids
		var enabled []int
		if running >= 0 && !rs.threads[running].done {
			enabled = append(enabled, running)
		}
		for _, t := range rs.threads {
			if !t.done && t.id != running {
				enabled = append(enabled, t.id)
			}
		}
		if len(enabled) == 0 {
			break
		}
		pick := enabled[0]
		if len(enabled) > 1 {
			re := running >= 0 && !rs.threads[running].done
			c := rs.nextChoice(len(enabled), 's', rs.threads[enabled[0]].label, re, enabled[0])
			pick = enabled[c]
		}
		running = pick
		current = pick
		rs.exec.Steps++
		if rs.horizon > 0 && rs.exec.Steps > rs.horizon {
			rs.exec.Violations = append(rs.exec.Violations, fmt.Sprintf("horizon of %d steps exceeded (livelock?)", rs.horizon))
			// let everything drain without further scheduling decisions
		}
		t := rs.threads[pick]
		t.wake <- 0
		// the thread runs until its next point, data choice, or end
		for {
			ev := <-rs.events
			if ev.done {
				t.done = true
				if ev.panicv != "" {
					rs.exec.Panics = append(rs.exec.Panics, ev.panicv)
				}
				break
			}
			if ev.chooseN > 0 {
				c := rs.nextChoice(ev.chooseN, 'd', ev.label, false, t.id)
				t.wake <- c
				continue
			}
			break // parked at a scheduling point
		}
	}
	return rs.exec
}

// Explorer enumerates executions by DFS over choice prefixes.
type Explorer struct {
	Bodies  func() []Body // fresh bodies (fresh instances) for every execution
	Reset   func()        // reset shared state before every execution
	Check   func(x *Exec) // oracle; appends to x.Violations
	Bound   int
	Horizon int
	// sharding of the first-level subtrees
	Shard, Shards int
	Stop          func() bool

	// Unbounded: no deviation bound; instead prune at already visited global
	// states (requires StateHashing).
	Unbounded bool
	Seen      map[string]struct{}
	Pruned    int64

	Executions  int64
	Points      int64
	MaxPoints   int
	Outcomes    map[string]int
	OnViolation func(x *Exec)
	Capped      bool
}

func (e *Explorer) one(prefix []int) *Exec {
	if e.Reset != nil {
		e.Reset()
	}
	x := Run(e.Bodies(), prefix, e.Horizon)
	e.Executions++
	e.Points += int64(len(x.Points))
	if len(x.Points) > e.MaxPoints {
		e.MaxPoints = len(x.Points)
	}
	if x.Diverged != "" {
		panic("schedule explorer: " + x.Diverged)
	}
	if e.Check != nil {
		e.Check(x)
	}
	if (len(x.Violations) > 0 || len(x.Panics) > 0) && e.OnViolation != nil {
		e.OnViolation(x)
	}
	return x
}

func altCost(p PointRec, alt int) int {
	if alt == 0 {
		return 0
	}
	if p.Kind == 'd' || p.RunningEnabled {
		return 1
	}
	return 0
}

// Explore runs the whole bounded search.
func (e *Explorer) Explore() {
	first := 0
	var rec func(prefix []int, depth int)
	rec = func(prefix []int, depth int) {
		if e.Capped {
			return
		}
		if e.Stop != nil && e.Executions&255 == 0 && e.Stop() {
			e.Capped = true
			return
		}
		x := e.one(prefix)
		for i := len(prefix); i < len(x.Points); i++ {
			p := x.Points[i]
			if e.Unbounded {
				if _, ok := e.Seen[p.Key]; ok {
					e.Pruned++
					break // everything from this state on was explored from its first visit
				}
				e.Seen[p.Key] = struct{}{}
			}
			for alt := 1; alt < p.Options; alt++ {
				if !e.Unbounded && p.Cost+altCost(p, alt) > e.Bound {
					continue
				}
				np := append(append([]int(nil), x.Choices[:i]...), alt)
				if depth == 0 {
					// shard the first-level subtrees
					mine := first%e.Shards == e.Shard
					first++
					if !mine {
						continue
					}
				}
				rec(np, depth+1)
			}
		}
	}
	if e.Shards <= 0 {
		e.Shards = 1
	}
	if e.Unbounded && e.Seen == nil {
		e.Seen = map[string]struct{}{}
	}
	if e.Shard == 0 {
		rec(nil, 0)
	} else {
		// other shards re-run the root only to enumerate its alternatives
		x := e.one(nil)
		e.Executions--
		for i := 0; i < len(x.Points); i++ {
			p := x.Points[i]
			for alt := 1; alt < p.Options; alt++ {
				if !e.Unbounded && p.Cost+altCost(p, alt) > e.Bound {
					continue
				}
				mine := first%e.Shards == e.Shard
				first++
				if mine {
					rec(append(append([]int(nil), x.Choices[:i]...), alt), 1)
				}
			}
		}
	}
}
