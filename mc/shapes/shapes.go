// Package shapes holds the catalogue of struct definitions that the checks
// generate readers/writers for at check time.
package shapes

// Shape is one struct definition to feed to parquetgen.
type Shape struct {
	Name string // target name and package name
	Type string // root struct type
	Src  string // Go source of the type declarations (without package clause)
}

var Catalogue = []Shape{
	{Name: "mini", Type: "Mini", Src: `
type Mini struct {
	ID   int32    ` + "`parquet:\"id\"`" + `
	Flag *bool    ` + "`parquet:\"flag\"`" + `
	Tags []string ` + "`parquet:\"tags\"`" + `
	Opt  *int64   ` + "`parquet:\"opt\"`" + `
}
`},
	{Name: "flat24", Type: "Flat", Src: `
type Flat struct {
	I32  int32
	U32  uint32
	I64  int64
	U64  uint64
	F32  float32
	F64  float64
	B    bool
	S    string
	OI32 *int32
	OU32 *uint32
	OI64 *int64
	OU64 *uint64
	OF32 *float32
	OF64 *float64
	OB   *bool
	OS   *string
	RI32 []int32
	RU32 []uint32
	RI64 []int64
	RU64 []uint64
	RF32 []float32
	RF64 []float64
	RB   []bool
	RS   []string
}
`},
	{Name: "person", Type: "Person", Src: `
type Being struct {
	ID   int32  ` + "`parquet:\"id\"`" + `
	Name string ` + "`parquet:\"name\"`" + `
	Age  *int32 ` + "`parquet:\"age\"`" + `
}

type Skill struct {
	Name       string ` + "`parquet:\"name\"`" + `
	Difficulty string ` + "`parquet:\"difficulty\"`" + `
}

type Hobby struct {
	Name       string  ` + "`parquet:\"name\"`" + `
	Difficulty *int32  ` + "`parquet:\"difficulty\"`" + `
	Skills     []Skill ` + "`parquet:\"skills\"`" + `
}

type Person struct {
	Being
	Happiness   int64    ` + "`parquet:\"happiness\"`" + `
	Sadness     *int64   ` + "`parquet:\"sadness\"`" + `
	Code        *string  ` + "`parquet:\"code\"`" + `
	Funkiness   float32  ` + "`parquet:\"funkiness\"`" + `
	Boldness    float64  ` + "`parquet:\"boldness\"`" + `
	Lameness    *float32 ` + "`parquet:\"lameness\"`" + `
	Keen        *bool    ` + "`parquet:\"keen\"`" + `
	Birthday    uint32   ` + "`parquet:\"birthday\"`" + `
	Anniversary *uint64  ` + "`parquet:\"anniversary\"`" + `
	BFF         string   ` + "`parquet:\"bff\"`" + `
	Hungry      bool     ` + "`parquet:\"hungry\"`" + `
	Secret      string   ` + "`parquet:\"-\"`" + `
	Hobby       *Hobby   ` + "`parquet:\"hobby\"`" + `
	Friends     []Being  ` + "`parquet:\"friends\"`" + `
	Sleepy      bool
}
`},
	{Name: "document", Type: "Document", Src: `
type Link struct {
	Backward []int64 ` + "`parquet:\"backward\"`" + `
	Forward  []int64 ` + "`parquet:\"forward\"`" + `
}

type Language struct {
	Code    string  ` + "`parquet:\"code\"`" + `
	Country *string ` + "`parquet:\"country\"`" + `
}

type Name struct {
	Languages []Language ` + "`parquet:\"languages\"`" + `
	URL       *string    ` + "`parquet:\"url\"`" + `
}

type Document struct {
	DocID int64  ` + "`parquet:\"docid\"`" + `
	Links *Link  ` + "`parquet:\"link\"`" + `
	Names []Name ` + "`parquet:\"names\"`" + `
}
`},
	{Name: "repetition", Type: "Document", Src: `
type (
	Document struct {
		Links []Link ` + "`parquet:\"links\"`" + `
	}

	Link struct {
		Backward []Language ` + "`parquet:\"backward\"`" + `
		Forward  []Language ` + "`parquet:\"forward\"`" + `
	}

	Language struct {
		Codes     []string ` + "`parquet:\"code\"`" + `
		URL       *string  ` + "`parquet:\"url\"`" + `
		Countries []string ` + "`parquet:\"countries\"`" + `
	}
)
`},
	{Name: "readme", Type: "Person", Src: `
type Being struct {
	ID  int32  ` + "`parquet:\"id\"`" + `
	Age *int32 ` + "`parquet:\"age\"`" + `
}

type Person struct {
	Being    Being
	Username string ` + "`parquet:\"username\"`" + `
	Friends  []Being
}
`},
	{Name: "obool", Type: "OBool", Src: `
type OBool struct {
	B *bool
	N int32
}
`},
	{Name: "flat3", Type: "Flat3", Src: `
type Flat3 struct {
	A int64
	B *string
	C []int32
}
`},
	{Name: "samename", Type: "Same", Src: `
type D struct {
	V int32
}

type B struct {
	D D
	X *int32
}

type B2 struct {
	D D
}

type Same struct {
	B  B
	B2 B2
	Z  []int64
}
`},
	{Name: "reqdeep", Type: "ReqDeep", Src: `
type R3 struct {
	V int64
	S string
	T bool
	O *int32
}

type R2 struct {
	R3 R3
	W  *int32
}

type ReqDeep struct {
	ID int32
	R2 R2
}
`},
	{Name: "nest3", Type: "Nest3", Src: `
type N3 struct {
	A string
	B *int32
}

type N2 struct {
	Name string
	Lvl  *int32
	N3   []N3
}

type Nest3 struct {
	ID   int32
	N2   *N2
	Tail []int64
}
`},
	// every leaf type, required and optional, below an optional and below a
	// repeated group (definition levels strictly between 0 and the maximum)
	{Name: "nest16", Type: "Nest16", Src: `
type In16 struct {
	B    bool
	OB   *bool
	I32  int32
	OI32 *int32
	U32  uint32
	OU32 *uint32
	I64  int64
	OI64 *int64
	U64  uint64
	OU64 *uint64
	F32  float32
	OF32 *float32
	F64  float64
	OF64 *float64
	S    string
	OS   *string
}

type Nest16 struct {
	ID int32
	O  *In16
	R  []In16
}
`},
	// every leaf type as a repeated leaf, at the top level, below an optional
	// and below a repeated group (repetition levels 1 and 2 for every type)
	{Name: "nestrep", Type: "NestRep", Src: `
type InRep struct {
	K    int32
	B    []bool
	I32  []int32
	U32  []uint32
	I64  []int64
	U64  []uint64
	F32  []float32
	F64  []float64
	S    []string
}

type NestRep struct {
	ID int32
	O  *InRep
	R  []InRep
	F  []float32
	U  []uint64
}
`},
	// three levels of repeated groups, two sibling leaves in the innermost
	// one (repetition level 3; the second leaf is not the first of its group)
	{Name: "rep3", Type: "Rep3", Src: `
type R3Leaf struct {
	A int32
	B string
	C *int64
}

type R3Mid struct {
	Leaves []R3Leaf
	M      *int32
}

type R3Top struct {
	Mids []R3Mid
}

type Rep3 struct {
	ID   int64
	Tops []R3Top
}
`},
	// one leaf opens several new groups of different repetition types: an
	// optional group whose first child is a required group whose first child
	// is a required group; a repeated group whose first child is a required group
	{Name: "ochain", Type: "OChain", Src: `
type OCIn struct {
	X *int32
	Y string
}

type OCReq struct {
	In OCIn
	Z  int32
}

type OCWrap struct {
	Req OCReq
	T   *string
}

type OCL struct {
	In OCIn
	K  int32
}

type OChain struct {
	ID   int32
	Wrap *OCWrap
	L    []OCL
	Tail int32
}
`},
	// write side only (C02, C03): an optional group whose first child is a
	// repeated group.  The generated *reader* is wrong for this chain - the
	// known C05 finding shape=O(P(o)) - so C01 does not use it.
	{Name: "ochainw", Type: "OChainW", Src: `
type OWItem struct {
	W *int32
	V int64
}

type OWOuter struct {
	Items []OWItem
	Note  *string
}

type OChainW struct {
	ID    int32
	Outer *OWOuter
	Tail  int32
}
`},
	// unusual but legal column names: one a prefix of another, differing only
	// in case, Go keywords, non-ASCII, punctuation, leading digit, a space
	{Name: "oddnames", Type: "OddNames", Src: `
type OddInner struct {
	A  int32  ` + "`parquet:\"a\"`" + `
	AB *int32 ` + "`parquet:\"ab\"`" + `
}

type OddNames struct {
	A     int32    ` + "`parquet:\"a\"`" + `
	AB    *int32   ` + "`parquet:\"ab\"`" + `
	AU    int64    ` + "`parquet:\"a_b\"`" + `
	Upper *string  ` + "`parquet:\"A\"`" + `
	Type  string   ` + "`parquet:\"type\"`" + `
	Func  []int32  ` + "`parquet:\"func\"`" + `
	E     *bool    ` + "`parquet:\"été\"`" + `
	Dash  float64  ` + "`parquet:\"x-y\"`" + `
	Digit *int64   ` + "`parquet:\"1st\"`" + `
	Space []string ` + "`parquet:\"has space\"`" + `
	In    *OddInner ` + "`parquet:\"a.b\"`" + `
	Ins   []OddInner ` + "`parquet:\"abc\"`" + `
}
`},
	// more than 64 columns
	{Name: "wide70", Type: "Wide70", Src: `
type Wide70 struct {
	C00 int32
	C01 *int32
	C02 int64
	C03 *string
	C04 bool
	C05 *float64
	C06 []int32
	C07 string
	C08 *bool
	C09 float32
	C10 int32
	C11 *int32
	C12 int64
	C13 *string
	C14 bool
	C15 *float64
	C16 []int32
	C17 string
	C18 *bool
	C19 float32
	C20 int32
	C21 *int32
	C22 int64
	C23 *string
	C24 bool
	C25 *float64
	C26 []int32
	C27 string
	C28 *bool
	C29 float32
	C30 int32
	C31 *int32
	C32 int64
	C33 *string
	C34 bool
	C35 *float64
	C36 []int32
	C37 string
	C38 *bool
	C39 float32
	C40 int32
	C41 *int32
	C42 int64
	C43 *string
	C44 bool
	C45 *float64
	C46 []int32
	C47 string
	C48 *bool
	C49 float32
	C50 int32
	C51 *int32
	C52 int64
	C53 *string
	C54 bool
	C55 *float64
	C56 []int32
	C57 string
	C58 *bool
	C59 float32
	C60 int32
	C61 *int32
	C62 int64
	C63 *string
	C64 bool
	C65 *float64
	C66 []int32
	C67 string
	C68 *bool
	C69 float32
}
`},
	// five levels of nesting alternating optional and required groups
	{Name: "deep5", Type: "Deep5", Src: `
type D5 struct {
	Y *int64
	Z int64
}

type D4 struct {
	D D5
}

type D3 struct {
	C *D4
	X string
}

type D2 struct {
	B D3
	W *int32
}

type Deep5 struct {
	A *D2
	V int32
}
`},
	// one struct type (holding a nested struct) used at two depths: the groups
	// address.geo and employer.address.geo share name and parent name
	{Name: "samedeep", Type: "SameDeep", Src: `
type Geo struct {
	Lat float64
	Lon *float64
}

type Addr struct {
	Street string
	Geo    Geo
}

type Emp struct {
	Name    string
	Address Addr
}

type SameDeep struct {
	ID       int32
	Address  Addr
	Employer *Emp
	Former   Emp
}
`},
	// required bool next to another column (bit-packed values without levels)
	{Name: "rbool", Type: "RBool", Src: `
type RBool struct {
	B bool
	N int32
}
`},
	// the last column is a required string (large pages at the very end of the data)
	{Name: "tailstr", Type: "TailStr", Src: `
type TailStr struct {
	ID int32
	S  string
}
`},
	// tailstr without its last column (a reader generated from an older
	// version of the struct)
	{Name: "idonly", Type: "IDOnly", Src: `
type IDOnly struct {
	ID int32
}
`},
	// single-column records: the last column of a row group is also the
	// first column of the next one
	{Name: "one", Type: "One", Src: `
type One struct {
	N int64
}
`},
	{Name: "oneopt", Type: "OneOpt", Src: `
type OneOpt struct {
	S *string
}
`},
	{Name: "onerep", Type: "OneRep", Src: `
type OneRep struct {
	L []int32
}
`},
}

// Get returns a catalogue shape.
func Get(name string) Shape {
	for _, s := range Catalogue {
		if s.Name == name {
			return s
		}
	}
	panic("no shape " + name)
}
