// Package shapes holds the catalogue of struct definitions that the checks
// generate readers/writers for at check time.
package shapes

// Shape is one struct definition to feed to parquetgen.
type Shape struct {
	Name string // target name and package name
	Type string // root struct type
	Src  string // Go source of the type declarations (without package clause)
}

var Catalogue = []Shape{
	{Name: "mini", Type: "Mini", Src: `
type Mini struct {
	ID   int32    ` + "`parquet:\"id\"`" + `
	Flag *bool    ` + "`parquet:\"flag\"`" + `
	Tags []string ` + "`parquet:\"tags\"`" + `
	Opt  *int64   ` + "`parquet:\"opt\"`" + `
}
`},
	{Name: "flat24", Type: "Flat", Src: `
type Flat struct {
	I32  int32
	U32  uint32
	I64  int64
	U64  uint64
	F32  float32
	F64  float64
	B    bool
	S    string
	OI32 *int32
	OU32 *uint32
	OI64 *int64
	OU64 *uint64
	OF32 *float32
	OF64 *float64
	OB   *bool
	OS   *string
	RI32 []int32
	RU32 []uint32
	RI64 []int64
	RU64 []uint64
	RF32 []float32
	RF64 []float64
	RB   []bool
	RS   []string
}
`},
	{Name: "person", Type: "Person", Src: `
type Being struct {
	ID   int32  ` + "`parquet:\"id\"`" + `
	Name string ` + "`parquet:\"name\"`" + `
	Age  *int32 ` + "`parquet:\"age\"`" + `
}

type Skill struct {
	Name       string ` + "`parquet:\"name\"`" + `
	Difficulty string ` + "`parquet:\"difficulty\"`" + `
}

type Hobby struct {
	Name       string  ` + "`parquet:\"name\"`" + `
	Difficulty *int32  ` + "`parquet:\"difficulty\"`" + `
	Skills     []Skill ` + "`parquet:\"skills\"`" + `
}

type Person struct {
	Being
	Happiness   int64    ` + "`parquet:\"happiness\"`" + `
	Sadness     *int64   ` + "`parquet:\"sadness\"`" + `
	Code        *string  ` + "`parquet:\"code\"`" + `
	Funkiness   float32  ` + "`parquet:\"funkiness\"`" + `
	Boldness    float64  ` + "`parquet:\"boldness\"`" + `
	Lameness    *float32 ` + "`parquet:\"lameness\"`" + `
	Keen        *bool    ` + "`parquet:\"keen\"`" + `
	Birthday    uint32   ` + "`parquet:\"birthday\"`" + `
	Anniversary *uint64  ` + "`parquet:\"anniversary\"`" + `
	BFF         string   ` + "`parquet:\"bff\"`" + `
	Hungry      bool     ` + "`parquet:\"hungry\"`" + `
	Secret      string   ` + "`parquet:\"-\"`" + `
	Hobby       *Hobby   ` + "`parquet:\"hobby\"`" + `
	Friends     []Being  ` + "`parquet:\"friends\"`" + `
	Sleepy      bool
}
`},
	{Name: "document", Type: "Document", Src: `
type Link struct {
	Backward []int64 ` + "`parquet:\"backward\"`" + `
	Forward  []int64 ` + "`parquet:\"forward\"`" + `
}

type Language struct {
	Code    string  ` + "`parquet:\"code\"`" + `
	Country *string ` + "`parquet:\"country\"`" + `
}

type Name struct {
	Languages []Language ` + "`parquet:\"languages\"`" + `
	URL       *string    ` + "`parquet:\"url\"`" + `
}

type Document struct {
	DocID int64  ` + "`parquet:\"docid\"`" + `
	Links *Link  ` + "`parquet:\"link\"`" + `
	Names []Name ` + "`parquet:\"names\"`" + `
}
`},
	{Name: "repetition", Type: "Document", Src: `
type (
	Document struct {
		Links []Link ` + "`parquet:\"links\"`" + `
	}

	Link struct {
		Backward []Language ` + "`parquet:\"backward\"`" + `
		Forward  []Language ` + "`parquet:\"forward\"`" + `
	}

	Language struct {
		Codes     []string ` + "`parquet:\"code\"`" + `
		URL       *string  ` + "`parquet:\"url\"`" + `
		Countries []string ` + "`parquet:\"countries\"`" + `
	}
)
`},
	{Name: "readme", Type: "Person", Src: `
type Being struct {
	ID  int32  ` + "`parquet:\"id\"`" + `
	Age *int32 ` + "`parquet:\"age\"`" + `
}

type Person struct {
	Being    Being
	Username string ` + "`parquet:\"username\"`" + `
	Friends  []Being
}
`},
	{Name: "obool", Type: "OBool", Src: `
type OBool struct {
	B *bool
	N int32
}
`},
	{Name: "flat3", Type: "Flat3", Src: `
type Flat3 struct {
	A int64
	B *string
	C []int32
}
`},
	{Name: "samename", Type: "Same", Src: `
type D struct {
	V int32
}

type B struct {
	D D
	X *int32
}

type B2 struct {
	D D
}

type Same struct {
	B  B
	B2 B2
	Z  []int64
}
`},
	{Name: "reqdeep", Type: "ReqDeep", Src: `
type R3 struct {
	V int64
	S string
	T bool
	O *int32
}

type R2 struct {
	R3 R3
	W  *int32
}

type ReqDeep struct {
	ID int32
	R2 R2
}
`},
	{Name: "nest3", Type: "Nest3", Src: `
type N3 struct {
	A string
	B *int32
}

type N2 struct {
	Name string
	Lvl  *int32
	N3   []N3
}

type Nest3 struct {
	ID   int32
	N2   *N2
	Tail []int64
}
`},
	// every leaf type, required and optional, below an optional and below a
	// repeated group (definition levels strictly between 0 and the maximum)
	{Name: "nest16", Type: "Nest16", Src: `
type In16 struct {
	B    bool
	OB   *bool
	I32  int32
	OI32 *int32
	U32  uint32
	OU32 *uint32
	I64  int64
	OI64 *int64
	U64  uint64
	OU64 *uint64
	F32  float32
	OF32 *float32
	F64  float64
	OF64 *float64
	S    string
	OS   *string
}

type Nest16 struct {
	ID int32
	O  *In16
	R  []In16
}
`},
	// single-column records: the last column of a row group is also the
	// first column of the next one
	{Name: "one", Type: "One", Src: `
type One struct {
	N int64
}
`},
	{Name: "oneopt", Type: "OneOpt", Src: `
type OneOpt struct {
	S *string
}
`},
	{Name: "onerep", Type: "OneRep", Src: `
type OneRep struct {
	L []int32
}
`},
}

// Get returns a catalogue shape.
func Get(name string) Shape {
	for _, s := range Catalogue {
		if s.Name == name {
			return s
		}
	}
	panic("no shape " + name)
}
