// Package oracle holds the shared write/read/validate/stripe oracles used by
// the input-enumerating checks (C01, C02, C03, C05, C06, C12, C14, C15, C16).
package oracle

import (
	"bytes"
	"encoding/json"
	"fmt"
	"reflect"
	"strings"

	"verif/mc/drive"
	"verif/mc/gen"
	"verif/mc/refpq"
	"verif/mc/sut"
)

// Flags select oracles.
type Flags uint

const (
	RoundTrip  Flags = 1 << iota // library reader returns exactly the records (C01)
	Valid                        // reference validator accepts the file (C02)
	Striping                     // columns are the Dremel striping; reference assembly returns the records (C03)
	NoScramble                   // do not mutate records after Add
)

// Failure is one oracle complaint.
type Failure struct {
	Class string // panic | write-error | roundtrip | invalid | striping
	Code  string // finer category (validator problem code, ...)
	Msg   string
}

func (f Failure) String() string { return f.Class + "/" + f.Code + ": " + f.Msg }

// Case is a replayable input/configuration.
type Case struct {
	Target  string          `json:"target"`
	Records json.RawMessage `json:"records"`
	Batches []int           `json:"batches"`
	Page    int             `json:"page_size"`
	Codec   int             `json:"codec"`
	Flags   Flags           `json:"flags"`
	Note    string          `json:"note,omitempty"`
	// OptStyle is how the writer options are passed (sut.OptStyle): 0 page
	// size then codec, 1 codec then page size, 2 both given twice with other
	// values first (the later option decides)
	OptStyle int `json:"option_style,omitempty"`
}

// MakeCase builds the replayable form.
func MakeCase(t *sut.Target, recs []refpq.Val, batches []int, page int, codec sut.Codec, flags Flags) Case {
	return Case{Target: t.Name, Records: refpq.RecsToJSON(t.Schema(), recs), Batches: batches, Page: page, Codec: int(codec), Flags: flags, OptStyle: sut.OptStyle}
}

// Replay re-runs a case.
func (c Case) Replay() []Failure {
	t := sut.Get(c.Target)
	recs, err := refpq.RecsFromJSON(t.Schema(), c.Records)
	if err != nil {
		return []Failure{{Class: "harness", Msg: err.Error()}}
	}
	old := sut.OptStyle
	sut.OptStyle = c.OptStyle
	defer func() { sut.OptStyle = old }()
	_, fails := Run(t, recs, c.Batches, c.Page, sut.Codec(c.Codec), c.Flags)
	return fails
}

// GoRecs converts generic records to fresh Go struct values.
func GoRecs(t *sut.Target, recs []refpq.Val) []interface{} {
	out := make([]interface{}, len(recs))
	for i, r := range recs {
		out[i] = gen.ToGo(t.Schema(), t.Type, r)
	}
	return out
}

// Run writes recs split into batches (sizes; they must sum to len(recs)) and
// applies the selected oracles.  It returns the file as well.
func Run(t *sut.Target, recs []refpq.Val, batches []int, page int, codec sut.Codec, flags Flags) ([]byte, []Failure) {
	var fails []Failure
	gorecs := GoRecs(t, recs)
	var bs [][]interface{}
	p := 0
	for _, n := range batches {
		bs = append(bs, gorecs[p:p+n])
		p += n
	}
	if p != len(recs) {
		return nil, []Failure{{Class: "harness", Msg: "batches do not cover the records"}}
	}
	var after func(interface{})
	if flags&NoScramble == 0 {
		after = drive.Scramble
	}
	file, err, pmsg := drive.WriteFile(t, bs, nil, page, codec, after)
	if pmsg != "" {
		return file, []Failure{{Class: "panic", Code: "write", Msg: pmsg}}
	}
	if err != nil {
		return file, []Failure{{Class: "write-error", Msg: err.Error()}}
	}
	if flags&RoundTrip != 0 {
		fails = append(fails, CheckRoundTrip(t, file, recs)...)
	}
	if flags&(Valid|Striping) != 0 {
		fails = append(fails, CheckFile(t, file, recs, batches, page, codec, flags)...)
	}
	return file, fails
}

// CheckRoundTrip reads file with the generated reader and compares.
func CheckRoundTrip(t *sut.Target, file []byte, recs []refpq.Val) []Failure {
	var fails []Failure
	rr := drive.ReadAll(t, bytes.NewReader(file), len(recs)+8)
	switch {
	case rr.Panic != "":
		return []Failure{{Class: "panic", Code: "read", Msg: rr.Panic}}
	case rr.OpenErr != nil:
		return []Failure{{Class: "roundtrip", Code: "open-error", Msg: rr.OpenErr.Error()}}
	}
	if rr.Err != nil {
		fails = append(fails, Failure{Class: "roundtrip", Code: "error", Msg: "Error() = " + rr.Err.Error()})
	}
	if rr.Rows != int64(len(recs)) {
		fails = append(fails, Failure{Class: "roundtrip", Code: "rows", Msg: fmt.Sprintf("Rows() = %d, %d records were written", rr.Rows, len(recs))})
	}
	if len(rr.Recs) != len(recs) {
		fails = append(fails, Failure{Class: "roundtrip", Code: "next-count", Msg: fmt.Sprintf("Next() was true %d times (cap %d), %d records were written", len(rr.Recs), len(recs)+8, len(recs))})
	}
	if d := drive.CompareRecords(t.Schema(), recs, rr.Snap); d != "" && len(rr.Recs) == len(recs) {
		fails = append(fails, Failure{Class: "roundtrip", Code: "records", Msg: d})
	}
	if rr.Aliasing != "" {
		fails = append(fails, Failure{Class: "roundtrip", Code: "aliasing", Msg: rr.Aliasing})
	}
	return fails
}

// LenientCodes are validator complaints that the properties do not demand
// (see DESIGN.md, C02): they are counted in evidence but never violations.
var LenientCodes = map[string]bool{}

// CheckFile validates the file with the reference parser and compares the
// stored columns with the reference striping.
func CheckFile(t *sut.Target, file []byte, recs []refpq.Val, batches []int, page int, codec sut.Codec, flags Flags) []Failure {
	var fails []Failure
	// the per-page record cap is checked against the page size the harness
	// configured; with the library's default (whatever it is) nothing is assumed
	maxRec := page
	if maxRec <= 0 {
		maxRec = 0
	}
	f, err := refpq.ParseFile(file, refpq.ParseOptions{MaxPageRecords: maxRec})
	if err != nil {
		return []Failure{{Class: "invalid", Code: "unparseable", Msg: err.Error()}}
	}
	if flags&Valid != 0 {
		for _, p := range f.Problems {
			if LenientCodes[p.Code] {
				continue
			}
			fails = append(fails, Failure{Class: "invalid", Code: p.Code, Msg: p.Msg})
		}
		if d := refpq.SameSchema(t.Schema(), f.Schema); d != "" {
			fails = append(fails, Failure{Class: "invalid", Code: "schema.mismatch", Msg: "footer schema differs from the struct's schema: " + d})
		}
		if f.NumRows != int64(len(recs)) {
			fails = append(fails, Failure{Class: "invalid", Code: "footer.num_rows.truth", Msg: fmt.Sprintf("footer num_rows %d, %d records written", f.NumRows, len(recs))})
		}
		// codec recorded = codec used
		for gi, rg := range f.RowGroups {
			for _, ch := range rg.Chunks {
				if ch.Codec != int(codec) {
					fails = append(fails, Failure{Class: "invalid", Code: "chunk.codec", Msg: fmt.Sprintf("row group %d: chunk codec %d, writer configured %d", gi, ch.Codec, codec)})
				}
			}
		}
		// one row group per batch with that many rows
		var nonEmpty []int
		for _, b := range batches {
			if b > 0 {
				nonEmpty = append(nonEmpty, b)
			}
		}
		if len(f.RowGroups) != len(nonEmpty) {
			fails = append(fails, Failure{Class: "invalid", Code: "rg.count", Msg: fmt.Sprintf("%d row groups for %d non-empty batches", len(f.RowGroups), len(nonEmpty))})
		} else {
			for i, rg := range f.RowGroups {
				if rg.NumRows != int64(nonEmpty[i]) {
					fails = append(fails, Failure{Class: "invalid", Code: "rg.num_rows.truth", Msg: fmt.Sprintf("row group %d: num_rows %d, batch had %d", i, rg.NumRows, nonEmpty[i])})
				}
			}
		}
	}
	if flags&Striping != 0 {
		if d := refpq.SameSchema(t.Schema(), f.Schema); d != "" {
			// striping is compared under the struct's schema; if the footer
			// schema is wrong the level widths used to parse may be wrong too
			fails = append(fails, Failure{Class: "striping", Code: "schema", Msg: "cannot compare striping, footer schema differs: " + d})
			return fails
		}
		want := refpq.Stripe(t.Schema(), recs)
		got := f.Columns()
		for i := range want {
			if i >= len(got) {
				break
			}
			if d := refpq.EqualEntries(want[i].Entries, got[i].Entries); d != "" {
				fails = append(fails, Failure{Class: "striping", Code: "column:" + want[i].Leaf.PathKey(), Msg: fmt.Sprintf("column %s: stored levels/values differ from the Dremel striping: %s", want[i].Leaf.PathKey(), d)})
			}
		}
		// spec-only assembly must give the records back
		asm, err := refpq.Assemble(f.Schema, got)
		if err != nil {
			fails = append(fails, Failure{Class: "striping", Code: "assemble", Msg: err.Error()})
		} else if d := drive.CompareRecords(t.Schema(), recs, asm); d != "" {
			fails = append(fails, Failure{Class: "striping", Code: "assemble-records", Msg: "a specification-only reader reassembles different records: " + d})
		}
	}
	return fails
}

// Describe renders a case for samples.
func Describe(t *sut.Target, recs []refpq.Val, batches []int, page int, codec sut.Codec) map[string]interface{} {
	var rs []string
	for i, r := range recs {
		if i >= 4 {
			rs = append(rs, fmt.Sprintf("... %d more", len(recs)-4))
			break
		}
		s := refpq.FmtVal(t.Schema(), r)
		if len(s) > 300 {
			s = s[:300] + "..."
		}
		rs = append(rs, s)
	}
	return map[string]interface{}{"target": t.Name, "records": rs, "batches": batches, "page_size": page, "codec": codec.String()}
}

// Key builds a violation key: one per (target, class, code).
func Key(t *sut.Target, f Failure) string {
	code := f.Code
	if f.Class == "panic" {
		code = code + ":" + panicSite(f.Msg)
	}
	return t.Name + "|" + f.Class + "|" + code
}

func panicSite(msg string) string {
	lines := strings.Split(msg, "\n")
	head := lines[0]
	if len(head) > 100 {
		head = head[:100]
	}
	// index values and lengths vary with the input: keep the kind of panic only
	hb := []byte(head)
	for i, ch := range hb {
		if ch >= '0' && ch <= '9' {
			hb[i] = '#'
		}
	}
	head = string(hb)
	for _, l := range lines[1:] {
		l = strings.TrimSpace(l)
		if strings.HasPrefix(l, "/") && !strings.Contains(l, "/runtime/") && !strings.Contains(l, "/fw/") && !strings.Contains(l, "go/src/") {
			if i := strings.Index(l, " +0x"); i > 0 {
				l = l[:i]
			}
			// strip the varying run directory
			if i := strings.Index(l, "/gen/"); i >= 0 {
				l = l[i:]
			}
			// drop line numbers of generated code (they shift with templates)
			if i := strings.LastIndexByte(l, ':'); i > 0 && strings.Contains(l, "/gen/") {
				l = l[:i]
			}
			return head + " @ " + l
		}
	}
	return head
}

var _ = reflect.TypeOf
