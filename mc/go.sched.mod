module verif/mc

go 1.20

require github.com/golang/snappy v0.0.2

require (
	github.com/apache/thrift v0.18.1 // indirect
	github.com/parsyl/parquet v0.0.0-00010101000000-000000000000
	github.com/valyala/bytebufferpool v1.0.0
)

replace github.com/parsyl/parquet => /repo

replace github.com/valyala/bytebufferpool => ../shim/bytebufferpool
