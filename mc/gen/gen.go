// Package gen enumerates record values of a schema: every structure with a
// bounded number of constructor nodes, and per-type value alphabets.
package gen

import (
	"fmt"
	"math"
	"reflect"
	"strings"

	"verif/mc/refpq"
)

type costed struct {
	v    refpq.Val
	cost int
}

// Structures returns every record structure of the schema with at most
// maxNodes constructor nodes (non-nil optionals + list elements) and list
// lengths <= listMax.  Leaves are left nil; use Fill.
func Structures(root *refpq.Node, maxNodes, listMax int) []refpq.Val {
	cs := enumGroup(root, maxNodes, listMax)
	out := make([]refpq.Val, len(cs))
	for i, c := range cs {
		out[i] = c.v
	}
	return out
}

func enumGroup(n *refpq.Node, budget, listMax int) []costed {
	// product over children with total cost <= budget
	acc := []costed{{v: refpq.Val{Group: nil}, cost: 0}}
	for _, ch := range n.Children {
		var next []costed
		for _, a := range acc {
			for _, c := range enumNode(ch, budget-a.cost, listMax) {
				g := append(append([]refpq.Val(nil), a.v.Group...), c.v)
				next = append(next, costed{v: refpq.Val{Group: g}, cost: a.cost + c.cost})
			}
		}
		acc = next
	}
	return acc
}

func enumInner(n *refpq.Node, budget, listMax int) []costed {
	if n.Leaf {
		return []costed{{v: refpq.Val{}, cost: 0}}
	}
	return enumGroup(n, budget, listMax)
}

func enumNode(n *refpq.Node, budget, listMax int) []costed {
	switch n.Rep {
	case refpq.Optional:
		out := []costed{{v: refpq.Val{Null: true}, cost: 0}}
		if budget >= 1 {
			for _, c := range enumInner(n, budget-1, listMax) {
				out = append(out, costed{v: c.v, cost: c.cost + 1})
			}
		}
		return out
	case refpq.Repeated:
		out := []costed{{v: refpq.Val{}, cost: 0}}
		// lists of length 1..listMax
		cur := []costed{{v: refpq.Val{}, cost: 0}}
		for l := 1; l <= listMax && l <= budget; l++ {
			var next []costed
			for _, a := range cur {
				rem := budget - a.cost - 1
				if rem < 0 {
					continue
				}
				for _, e := range enumInner(n, rem, listMax) {
					lst := append(append([]refpq.Val(nil), a.v.List...), e.v)
					next = append(next, costed{v: refpq.Val{List: lst}, cost: a.cost + 1 + e.cost})
				}
			}
			out = append(out, next...)
			cur = next
		}
		return out
	}
	return enumInner(n, budget, listMax)
}

// Filler assigns leaf values.
type Filler struct {
	n int
}

// Next returns a fresh distinguishable value of the Go kind.
func (f *Filler) Next(k reflect.Kind) interface{} {
	f.n++
	i := f.n
	switch k {
	case reflect.Int32:
		return int32(i)
	case reflect.Uint32:
		return uint32(i)
	case reflect.Int64:
		return int64(i) * 1000003
	case reflect.Uint64:
		return uint64(i) * 1000003
	case reflect.Float32:
		return float32(i) + 0.5
	case reflect.Float64:
		return float64(i) + 0.25
	case reflect.Bool:
		return i%2 == 1
	case reflect.String:
		return fmt.Sprintf("s%d", i)
	}
	panic("kind")
}

// Fill returns a copy of v (a record of root) with every leaf replaced by a
// fresh value from f.
func Fill(root *refpq.Node, v refpq.Val, f *Filler) refpq.Val {
	var inner func(n *refpq.Node, v refpq.Val) refpq.Val
	var node func(n *refpq.Node, v refpq.Val) refpq.Val
	inner = func(n *refpq.Node, v refpq.Val) refpq.Val {
		if n.Leaf {
			return refpq.Val{Leaf: f.Next(n.GoKind)}
		}
		out := refpq.Val{Group: make([]refpq.Val, len(n.Children))}
		for i, c := range n.Children {
			out.Group[i] = node(c, v.Group[i])
		}
		return out
	}
	node = func(n *refpq.Node, v refpq.Val) refpq.Val {
		switch n.Rep {
		case refpq.Optional:
			if v.Null {
				return v
			}
			return inner(n, v)
		case refpq.Repeated:
			out := refpq.Val{}
			for _, e := range v.List {
				out.List = append(out.List, inner(n, e))
			}
			return out
		}
		return inner(n, v)
	}
	return inner(root, v)
}

// ToGo builds a Go struct value (not pointer) of type t from a record.
func ToGo(root *refpq.Node, t reflect.Type, v refpq.Val) interface{} {
	p := reflect.New(t)
	refpq.ToGo(root, v, p.Elem())
	return p.Elem().Interface()
}

// Alphabet returns the per-kind value alphabet ("extremes" of the property texts).
func Alphabet(k reflect.Kind) []interface{} {
	switch k {
	case reflect.Int32:
		return []interface{}{int32(0), int32(1), int32(-1), int32(math.MinInt32), int32(math.MaxInt32)}
	case reflect.Int64:
		return []interface{}{int64(0), int64(1), int64(-1), int64(math.MinInt64), int64(math.MaxInt64)}
	case reflect.Uint32:
		return []interface{}{uint32(0), uint32(1), uint32(math.MaxUint32), uint32(1 << 31)}
	case reflect.Uint64:
		return []interface{}{uint64(0), uint64(1), uint64(math.MaxUint64), uint64(1 << 63)}
	case reflect.Float32:
		return []interface{}{float32(0), float32(math.Copysign(0, -1)), float32(1), float32(-1),
			float32(math.Inf(1)), float32(math.Inf(-1)), float32(math.NaN()), math.Float32frombits(0x7fc00001),
			float32(math.MaxFloat32), math.Float32frombits(1),
			math.Float32frombits(0x7fa00001), math.Float32frombits(0xff800001)} // signalling NaNs
	case reflect.Float64:
		return []interface{}{float64(0), math.Copysign(0, -1), float64(1), float64(-1),
			math.Inf(1), math.Inf(-1), math.NaN(), math.Float64frombits(0x7ff8000000000001),
			math.MaxFloat64, math.Float64frombits(1),
			math.Float64frombits(0x7ff0000000000001), math.Float64frombits(0xfff4000000000000)} // signalling NaNs
	case reflect.Bool:
		return []interface{}{false, true}
	case reflect.String:
		return []interface{}{"", "a", "b", strings.Repeat("x", 300), "\xff\xfe\x00", "__#NIL#__"}
	}
	panic("kind")
}

// Compositions enumerates all ordered compositions of n into positive parts.
func Compositions(n int) [][]int {
	if n == 0 {
		return [][]int{{}}
	}
	var out [][]int
	for first := 1; first <= n; first++ {
		for _, rest := range Compositions(n - first) {
			out = append(out, append([]int{first}, rest...))
		}
	}
	return out
}
