// Package progrun is linked into every batch binary of the program
// enumerating checks: it exercises every generated package registered in
// sut and writes one JSON result line per target.
package progrun

import (
	"encoding/json"
	"fmt"
	"os"
	"strconv"
	"strings"

	"verif/mc/gen"
	"verif/mc/oracle"
	"verif/mc/prog"
	"verif/mc/refpq"
	"verif/mc/sut"
)

// Inputs enumerates the (records, batches, page size) cases for a target.
func Inputs(t *sut.Target, s, pairCap int, f func(recs []refpq.Val, batches []int, page int)) {
	root := t.Schema()
	all := gen.Structures(root, s, 2)
	for len(all) > 600 && s > 3 {
		// keep wide shapes affordable: lower the node bound for them
		s--
		all = gen.Structures(root, s, 2)
	}
	for _, st := range all {
		fl := &gen.Filler{}
		r := gen.Fill(root, st, fl)
		f([]refpq.Val{r}, []int{1}, 0)
		f([]refpq.Val{r}, []int{1}, 1)
	}
	m := len(all)
	if pairCap > 0 && m > pairCap {
		m = pairCap
	}
	for i := 0; i < m; i++ {
		for j := 0; j < m; j++ {
			fl := &gen.Filler{}
			recs := []refpq.Val{gen.Fill(root, all[i], fl), gen.Fill(root, all[j], fl)}
			f(recs, []int{2}, 1)
			f(recs, []int{2}, 0)
			f(recs, []int{1, 1}, 0)
		}
	}
	// a row group of several pages followed by further use of the same writer
	// (and the reverse): three records, page size 1, batches 2+1 and 1+2
	if len(all) >= 1 {
		fl := &gen.Filler{}
		recs := []refpq.Val{gen.Fill(root, all[len(all)-1], fl), gen.Fill(root, all[0], fl), gen.Fill(root, all[len(all)/2], fl)}
		f(recs, []int{2, 1}, 1)
		f(recs, []int{1, 2}, 1)
	}
	// three records with the fullest structure in the middle (page size 2)
	if len(all) >= 2 {
		fl := &gen.Filler{}
		recs := []refpq.Val{gen.Fill(root, all[len(all)-1], fl), gen.Fill(root, all[0], fl), gen.Fill(root, all[len(all)-1], fl)}
		f(recs, []int{3}, 2)
	}
}

// Exercise runs the C05 oracles on one target.
func Exercise(t *sut.Target, s, pairCap int) prog.Result {
	res := prog.Result{Target: t.Name, Ran: true}
	seen := map[string]bool{}
	flags := oracle.RoundTrip | oracle.Valid | oracle.Striping
	Inputs(t, s, pairCap, func(recs []refpq.Val, batches []int, page int) {
		res.Evals++
		_, fails := oracle.Run(t, recs, batches, page, sut.Snappy, flags)
		for _, f := range fails {
			code := f.Code
			if f.Class == "panic" {
				code = f.Code // write / read
			}
			if f.Class == "striping" && strings.HasPrefix(code, "column:") {
				code = "column"
			}
			k := f.Class + "/" + code
			if seen[k] {
				continue
			}
			seen[k] = true
			cs := oracle.MakeCase(t, recs, batches, page, sut.Snappy, flags)
			raw, _ := json.Marshal(cs)
			msg := f.Msg
			if len(msg) > 700 {
				msg = msg[:700] + "..."
			}
			res.Failures = append(res.Failures, prog.Failure{Class: f.Class, Code: code, Msg: msg + " | input: " + fmt.Sprint(oracle.Describe(t, recs, batches, page, sut.Snappy)["records"]), Case: raw})
		}
	})
	return res
}

// Main is the batch binary's entry point.
func Main() {
	out := os.Getenv("PROGRUN_OUT")
	cur := os.Getenv("PROGRUN_CURRENT")
	skip := map[string]bool{}
	for _, s := range strings.Split(os.Getenv("PROGRUN_SKIP"), "\x1f") {
		if s != "" {
			skip[s] = true
		}
	}
	mode := os.Getenv("PROGRUN_MODE")
	s, _ := strconv.Atoi(os.Getenv("PROGRUN_S"))
	if s == 0 {
		s = 3
	}
	pairCap, _ := strconv.Atoi(os.Getenv("PROGRUN_PAIRCAP"))
	f, err := os.OpenFile(out, os.O_CREATE|os.O_WRONLY|os.O_APPEND, 0o644)
	if err != nil {
		fmt.Fprintln(os.Stderr, err)
		os.Exit(3)
	}
	defer f.Close()
	for _, name := range sut.Names() {
		if skip[name] {
			continue
		}
		os.WriteFile(cur, []byte(name), 0o644)
		var r prog.Result
		switch mode {
		case "", "c05":
			r = Exercise(sut.Get(name), s, pairCap)
		default:
			if h, ok := Modes[mode]; ok {
				r = h(sut.Get(name))
			} else {
				fmt.Fprintln(os.Stderr, "unknown mode", mode)
				os.Exit(3)
			}
		}
		b, _ := json.Marshal(r)
		f.Write(append(b, '\n'))
	}
	os.WriteFile(cur, nil, 0o644)
}

// Modes lets other checks register their own per-target exercise.
var Modes = map[string]func(t *sut.Target) prog.Result{}
