// Package fw is the common driver of every check binary: sharding over worker
// subprocesses, counting, violation confirmation (5 re-executions in fresh
// processes), known-finding matching, evidence and replay files.
package fw

import (
	"bufio"
	"bytes"
	"context"
	"crypto/sha256"
	"encoding/binary"
	"encoding/hex"
	"encoding/json"
	"flag"
	"fmt"
	"hash/fnv"
	"os"
	"os/exec"
	"path/filepath"
	"runtime"
	"runtime/debug"
	"runtime/metrics"
	"sort"
	"strconv"
	"strings"
	"sync"
	"time"
)

// VerifDir is where evidence, replays and known findings live.
var VerifDir = func() string {
	if d := os.Getenv("VERIF_DIR"); d != "" {
		return d
	}
	return "/verif"
}()

// OutDir is where evidence and replay files are written (VERIF_OUT_DIR, a
// development aid for running against scratch trees; defaults to VerifDir).
var OutDir = func() string {
	if d := os.Getenv("VERIF_OUT_DIR"); d != "" {
		return d
	}
	return VerifDir
}()

// Spec describes a check.
type Spec struct {
	ID          string
	Level       string // evidence level
	Rule        string
	Assumptions []string
	// Run explores this worker's shard.
	Run func(c *Ctx)
	// Replay re-executes one recorded case and reports whether it still
	// violates (msg != "").
	Replay func(c *Ctx, kind string, data json.RawMessage) (msg string)
	// QuickBudget / ThoroughBudget: wall-clock caps after which exploration
	// stops with exhaustive=false (never a violation).
	QuickBudget    time.Duration
	ThoroughBudget time.Duration
	// MaxShards caps the number of worker processes (0 = NumCPU).
	MaxShards int
	// MaxViolations caps the distinct violation keys kept per shard (0 = 400).
	MaxViolations int
	// MaxConfirm caps how many fresh violations are re-executed 5x in fresh
	// processes before being reported (0 = 25); the rest are reported as found.
	MaxConfirm int
	// MemLimitMB, when > 0, starts a watchdog in workers and replays that ends
	// the process when the case under execution holds more live heap.
	MemLimitMB int
}

// Violation is one failing case.
type Violation struct {
	Key  string          `json:"key"`  // stable identity of the failing case (matched against known findings)
	Msg  string          `json:"msg"`  // what went wrong
	Kind string          `json:"kind"` // replay dispatch
	Case json.RawMessage `json:"case"` // replayable case description
}

// Ctx is handed to Run / Replay.
type Ctx struct {
	Spec     *Spec
	Tier     string
	Seed     int64
	Shard    int
	Shards   int
	Deadline time.Time
	WorkDir  string

	mu         sync.Mutex
	evals      int64
	distinct   map[uint64]struct{}
	samples    []interface{}
	violations []Violation
	counters   map[string]int64
	bounds     map[string]interface{}
	notes      []string
	capped     bool
	caseIdx    int64
	guardPath  string
	guardFile  *os.File
}

// Thorough reports the tier.
func (c *Ctx) Thorough() bool { return c.Tier == "thorough" }

// Mine implements round-robin sharding over a running case counter.
func (c *Ctx) Mine() bool {
	i := c.caseIdx
	c.caseIdx++
	return int(i%int64(c.Shards)) == c.Shard
}

// MineKey shards by a stable string key.
func (c *Ctx) MineKey(k string) bool {
	h := fnv.New32a()
	h.Write([]byte(k))
	return int(h.Sum32()%uint32(c.Shards)) == c.Shard
}

// Eval counts one evaluation.
func (c *Ctx) Eval() { c.evals++ }

// EvalN counts n evaluations.
func (c *Ctx) EvalN(n int) { c.evals += int64(n) }

// Distinct records a distinct non-trivial case by key.
func (c *Ctx) Distinct(key string) {
	h := fnv.New64a()
	h.Write([]byte(key))
	c.distinct[h.Sum64()] = struct{}{}
}

// DistinctN adds n cases that are distinct by construction (an enumeration
// without repetition) without hashing each of them.
func (c *Ctx) DistinctN(n int64) { c.counters["_distinct_n"] += n }

// DistinctHash records an already hashed key.
func (c *Ctx) DistinctHash(h uint64) { c.distinct[h] = struct{}{} }

// Sample keeps up to 6 sample cases per shard.
func (c *Ctx) Sample(s interface{}) {
	if len(c.samples) < 6 {
		c.samples = append(c.samples, s)
	}
}

// WantSample is true while samples are still being collected.
func (c *Ctx) WantSample() bool { return len(c.samples) < 6 }

// Count adds to a named counter (summed across shards).
func (c *Ctx) Count(name string, n int64) { c.counters[name] += n }

// Bound records a bound/parameter of the exploration (taken from shard 0).
func (c *Ctx) Bound(name string, v interface{}) { c.bounds[name] = v }

// Note adds a free-text note to the evidence.
func (c *Ctx) Note(format string, a ...interface{}) {
	c.notes = append(c.notes, fmt.Sprintf(format, a...))
}

// Expired reports whether the time budget is used up; the first call that
// returns true marks the run as capped (exhaustive=false).
func (c *Ctx) Expired() bool {
	if time.Now().After(c.Deadline) {
		c.capped = true
		return true
	}
	return false
}

// Capped marks the exploration as incomplete for a stated reason.
func (c *Ctx) Capped(reason string) {
	c.capped = true
	c.Note("capped: %s", reason)
}

// Violate records a violation.  Only the first 40 distinct keys per shard
// are kept in full.
func (c *Ctx) Violate(key, msg, kind string, cs interface{}) {
	for _, v := range c.violations {
		if v.Key == key {
			return
		}
	}
	max := 400
	if c.Spec != nil && c.Spec.MaxViolations > 0 {
		max = c.Spec.MaxViolations
	}
	if len(c.violations) >= max {
		c.counters["violations_dropped"]++
		return
	}
	raw, err := json.Marshal(cs)
	if err != nil {
		raw, _ = json.Marshal(fmt.Sprintf("%v", cs))
	}
	c.violations = append(c.violations, Violation{Key: key, Msg: msg, Kind: kind, Case: raw})
}

// Guard records the case about to be executed so that a fatal runtime error
// in the worker (out of memory, stack overflow) can be attributed to it.
func (c *Ctx) Guard(kind string, cs interface{}) {
	if c.guardPath == "" {
		return
	}
	if c.guardFile == nil {
		f, err := os.OpenFile(c.guardPath, os.O_CREATE|os.O_RDWR|os.O_TRUNC, 0o644)
		if err != nil {
			return
		}
		c.guardFile = f
	}
	raw, _ := json.Marshal(cs)
	v := Violation{Kind: kind, Case: raw}
	b, _ := json.Marshal(v)
	var hdr [8]byte
	binary.LittleEndian.PutUint64(hdr[:], uint64(len(b)))
	c.guardFile.WriteAt(append(hdr[:], b...), 0)
}

// NewReplayCtx returns a single-shard context for re-running enumeration
// code inside a replay.
func NewReplayCtx(c *Ctx) *Ctx {
	return newCtx(c.Spec, c.Tier, c.Seed, 0, 1, c.WorkDir)
}

// FirstViolation returns the message of the first recorded violation ("" if none).
func (c *Ctx) FirstViolation() string {
	if len(c.violations) == 0 {
		return ""
	}
	return c.violations[0].Msg
}

// Protect runs f, converting a panic into a message.
func Protect(f func()) (panicMsg string) {
	defer func() {
		if r := recover(); r != nil {
			st := string(debug.Stack())
			// keep the frames below the panic
			if i := strings.Index(st, "panic("); i >= 0 {
				st = st[i:]
			}
			if len(st) > 1500 {
				st = st[:1500]
			}
			panicMsg = fmt.Sprintf("panic: %v\n%s", r, st)
		}
	}()
	f()
	return ""
}

// PanicSite extracts a short, stable description of where a panic happened
// (first frame inside the library or generated code).
func PanicSite(msg string) string {
	lines := strings.Split(msg, "\n")
	head := lines[0]
	for _, l := range lines {
		l = strings.TrimSpace(l)
		if strings.HasPrefix(l, "/") && !strings.Contains(l, "/runtime/") && !strings.Contains(l, "/fw/fw.go") {
			if i := strings.Index(l, " +0x"); i > 0 {
				l = l[:i]
			}
			return head + " @ " + filepath.Base(filepath.Dir(l)) + "/" + filepath.Base(l)
		}
	}
	return head
}

type shardResult struct {
	Evals      int64                  `json:"evals"`
	Samples    []interface{}          `json:"samples"`
	Violations []Violation            `json:"violations"`
	Counters   map[string]int64       `json:"counters"`
	Bounds     map[string]interface{} `json:"bounds"`
	Notes      []string               `json:"notes"`
	Capped     bool                   `json:"capped"`
	WallS      float64                `json:"wall_s"`
}

func newCtx(spec *Spec, tier string, seed int64, shard, shards int, work string) *Ctx {
	budget := spec.QuickBudget
	if budget == 0 {
		budget = 100 * time.Second
	}
	if tier == "thorough" {
		budget = spec.ThoroughBudget
		if budget == 0 {
			budget = 25 * time.Minute
		}
	}
	if s := os.Getenv("VERIF_BUDGET_S"); s != "" {
		if n, err := strconv.Atoi(s); err == nil {
			budget = time.Duration(n) * time.Second
		}
	}
	return &Ctx{Spec: spec, Tier: tier, Seed: seed, Shard: shard, Shards: shards,
		Deadline: time.Now().Add(budget), WorkDir: work,
		distinct: map[uint64]struct{}{}, counters: map[string]int64{}, bounds: map[string]interface{}{}}
}

// Main is the entry point of every check binary.
func Main(spec Spec) {
	tier := flag.String("tier", envOr("VERIF_TIER", "quick"), "quick|thorough")
	worker := flag.String("worker", "", "i/n (internal)")
	out := flag.String("out", "", "result file prefix (internal)")
	replay := flag.String("replay", "", "replay file")
	quiet := flag.Bool("quiet-replay", false, "internal: replay used for confirmation")
	flag.Parse()
	seed, _ := strconv.ParseInt(envOr("VERIF_SEED", "0"), 10, 64)
	if *tier != "quick" && *tier != "thorough" {
		fmt.Fprintln(os.Stderr, "bad tier", *tier)
		os.Exit(2)
	}
	work := envOr("VERIF_WORK", os.TempDir())
	switch {
	case *replay != "":
		os.Exit(doReplay(&spec, *tier, seed, *replay, *quiet, work))
	case *worker != "":
		var i, n int
		fmt.Sscanf(*worker, "%d/%d", &i, &n)
		doWorker(&spec, *tier, seed, i, n, *out, work)
	default:
		os.Exit(doParent(&spec, *tier, seed, work))
	}
}

func envOr(k, d string) string {
	if v := os.Getenv(k); v != "" {
		return v
	}
	return d
}

// memoryWatchdog ends the process when the live heap stays above the limit
// after a forced collection, i.e. when the case under execution itself holds
// that much memory (garbage of earlier cases is collected first, so the verdict
// does not depend on the worker's history).  A runaway allocation in the code
// under test thereby becomes a reproducible "worker died" violation instead of
// an out-of-memory kill of unrelated processes.
func memoryWatchdog(limitMB int) {
	if limitMB <= 0 {
		return
	}
	debug.SetMemoryLimit(int64(limitMB) << 20)
	limit := uint64(limitMB) << 20
	sample := []metrics.Sample{{Name: "/memory/classes/heap/objects:bytes"}}
	go func() {
		for {
			time.Sleep(5 * time.Millisecond)
			metrics.Read(sample)
			if sample[0].Value.Uint64() > limit {
				runtime.GC()
				metrics.Read(sample)
				if sample[0].Value.Uint64() > limit {
					fmt.Fprintf(os.Stderr, "fatal error: memory limit of %d MB exceeded by the case under execution (live heap %d MB)\n", limitMB, sample[0].Value.Uint64()>>20)
					os.Exit(97)
				}
			}
		}
	}()
}

func doWorker(spec *Spec, tier string, seed int64, i, n int, out, work string) {
	memoryWatchdog(spec.MemLimitMB)
	c := newCtx(spec, tier, seed, i, n, work)
	c.guardPath = out + ".guard"
	t0 := time.Now()
	spec.Run(c)
	res := shardResult{Evals: c.evals, Samples: c.samples, Violations: c.violations, Counters: c.counters,
		Bounds: c.bounds, Notes: c.notes, Capped: c.capped, WallS: time.Since(t0).Seconds()}
	b, err := json.Marshal(res)
	if err != nil {
		fmt.Fprintln(os.Stderr, "marshal:", err)
		os.Exit(3)
	}
	// distinct hashes, binary
	hs := make([]byte, 0, 8*len(c.distinct))
	var t [8]byte
	for h := range c.distinct {
		binary.LittleEndian.PutUint64(t[:], h)
		hs = append(hs, t[:]...)
	}
	if err := os.WriteFile(out+".hashes", hs, 0o644); err != nil {
		fmt.Fprintln(os.Stderr, err)
		os.Exit(3)
	}
	if err := os.WriteFile(out+".json", b, 0o644); err != nil {
		fmt.Fprintln(os.Stderr, err)
		os.Exit(3)
	}
	os.Remove(c.guardPath)
}

func doReplay(spec *Spec, tier string, seed int64, path string, quiet bool, work string) int {
	b, err := os.ReadFile(path)
	if err != nil {
		fmt.Fprintln(os.Stderr, err)
		return 2
	}
	var rf ReplayFile
	if err := json.Unmarshal(b, &rf); err != nil {
		fmt.Fprintln(os.Stderr, "replay file:", err)
		return 2
	}
	memoryWatchdog(spec.MemLimitMB)
	c := newCtx(spec, tier, seed, 0, 1, work)
	c.Deadline = time.Now().Add(10 * time.Minute)
	var msg string
	if p := Protect(func() { msg = spec.Replay(c, rf.Kind, rf.Case) }); p != "" {
		msg = "replay harness panic: " + p
	}
	if msg != "" {
		if !quiet {
			fmt.Printf("replay: property=%s still violated: %s\n", spec.ID, msg)
		} else {
			fmt.Printf("%s\n", msg)
		}
		return 1
	}
	if !quiet {
		fmt.Printf("replay: property=%s holds on this case\n", spec.ID)
	}
	return 0
}

// ReplayFile is what a violation is written out as.
type ReplayFile struct {
	Property string          `json:"property"`
	Key      string          `json:"key"`
	Msg      string          `json:"msg"`
	Kind     string          `json:"kind"`
	Case     json.RawMessage `json:"case"`
	How      string          `json:"how_to_replay"`
}

// Finding is one line of known_findings.jsonl.
type Finding struct {
	Status   string `json:"status"` // "known" or "fixed"
	Property string `json:"property"`
	Key      string `json:"key,omitempty"`    // exact violation key
	Prefix   string `json:"prefix,omitempty"` // or a key prefix
	What     string `json:"what"`
	Commit   string `json:"commit,omitempty"`
	Text     string `json:"text,omitempty"`
}

func loadFindings(id string) []Finding {
	var out []Finding
	files, _ := filepath.Glob(filepath.Join(VerifDir, "known_findings*.jsonl"))
	sort.Strings(files)
	for _, fn := range files {
		f, err := os.Open(fn)
		if err != nil {
			continue
		}
		sc := bufio.NewScanner(f)
		sc.Buffer(make([]byte, 1<<20), 1<<24)
		for sc.Scan() {
			line := strings.TrimSpace(sc.Text())
			if line == "" || strings.HasPrefix(line, "#") {
				continue
			}
			var fd Finding
			if err := json.Unmarshal([]byte(line), &fd); err != nil {
				fmt.Fprintln(os.Stderr, filepath.Base(fn)+": bad line:", err)
				continue
			}
			if fd.Property == id && fd.Status == "known" {
				out = append(out, fd)
			}
		}
		f.Close()
	}
	return out
}

var findingIndex map[string]int

func matchFinding(fs []Finding, key string) *Finding {
	if findingIndex == nil {
		findingIndex = map[string]int{}
		for i := range fs {
			if fs[i].Key != "" {
				findingIndex[fs[i].Key] = i
			}
		}
	}
	if i, ok := findingIndex[key]; ok {
		return &fs[i]
	}
	for i := range fs {
		if fs[i].Prefix == "" {
			continue
		}
		if fs[i].Key != "" && fs[i].Key == key {
			return &fs[i]
		}
		if fs[i].Prefix != "" && strings.HasPrefix(key, fs[i].Prefix) {
			return &fs[i]
		}
	}
	return nil
}

func doParent(spec *Spec, tier string, seed int64, work string) int {
	t0 := time.Now()
	n := runtime.NumCPU()
	if n > 16 {
		n = 16
	}
	if spec.MaxShards > 0 && n > spec.MaxShards {
		n = spec.MaxShards
	}
	if s := os.Getenv("VERIF_SHARDS"); s != "" {
		if k, err := strconv.Atoi(s); err == nil && k > 0 {
			n = k
		}
	}
	self, _ := os.Executable()
	dir, err := os.MkdirTemp(work, "shards-")
	if err != nil {
		fmt.Fprintln(os.Stderr, err)
		return 2
	}
	defer os.RemoveAll(dir)
	type wres struct {
		err    error
		stderr string
	}
	results := make([]wres, n)
	var wg sync.WaitGroup
	for i := 0; i < n; i++ {
		wg.Add(1)
		go func(i int) {
			defer wg.Done()
			outp := filepath.Join(dir, fmt.Sprintf("s%d", i))
			args := []string{"-tier", tier, "-worker", fmt.Sprintf("%d/%d", i, n), "-out", outp}
			cmd := exec.Command(self, args...)
			cmd.Env = append(os.Environ(), "GOMAXPROCS=2")
			var eb bytes.Buffer
			cmd.Stderr = &eb
			cmd.Stdout = &eb
			results[i].err = cmd.Run()
			s := eb.String()
			if len(s) > 6000 {
				s = s[:3000] + "\n...\n" + s[len(s)-3000:]
			}
			results[i].stderr = s
		}(i)
	}
	wg.Wait()

	var total shardResult
	total.Counters = map[string]int64{}
	hashes := []uint64{}
	var viols []Violation
	harnessErr := false
	for i := 0; i < n; i++ {
		outp := filepath.Join(dir, fmt.Sprintf("s%d", i))
		b, err := os.ReadFile(outp + ".json")
		if err != nil {
			// the worker died: attribute to the guarded case if there is one
			if g, gerr := os.ReadFile(outp + ".guard"); gerr == nil && len(g) > 8 {
				var v Violation
				gl := int(binary.LittleEndian.Uint64(g))
				if gl > 0 && gl <= len(g)-8 && json.Unmarshal(g[8:8+gl], &v) == nil {
					v.Key = "worker-crash:" + shortHash(v.Case)
					v.Msg = "worker process died (fatal runtime error, out of memory or hang) while executing this case: " + lastLines(results[i].stderr, 6)
					viols = append(viols, v)
					total.Capped = true
					continue
				}
			}
			fmt.Fprintf(os.Stderr, "HARNESS-ERROR: worker %d/%d failed without a result: %v\n%s\n", i, n, results[i].err, results[i].stderr)
			harnessErr = true
			continue
		}
		var r shardResult
		if err := json.Unmarshal(b, &r); err != nil {
			fmt.Fprintf(os.Stderr, "HARNESS-ERROR: worker %d result: %v\n", i, err)
			harnessErr = true
			continue
		}
		if results[i].stderr != "" && os.Getenv("VERIF_VERBOSE") != "" {
			fmt.Fprintf(os.Stderr, "[worker %d] %s\n", i, results[i].stderr)
		}
		total.Evals += r.Evals
		for k, v := range r.Counters {
			total.Counters[k] += v
		}
		if total.Bounds == nil {
			total.Bounds = map[string]interface{}{}
		}
		for k, v := range r.Bounds {
			if _, ok := total.Bounds[k]; !ok {
				total.Bounds[k] = v
			}
		}
		for _, s := range r.Samples {
			if len(total.Samples) < 8 {
				total.Samples = append(total.Samples, s)
			}
		}
		for _, nt := range r.Notes {
			dup := false
			for _, x := range total.Notes {
				if x == nt {
					dup = true
				}
			}
			if !dup && len(total.Notes) < 40 {
				total.Notes = append(total.Notes, nt)
			}
		}
		total.Capped = total.Capped || r.Capped
		if r.WallS > total.WallS {
			total.WallS = r.WallS
		}
		viols = append(viols, r.Violations...)
		hb, _ := os.ReadFile(outp + ".hashes")
		for j := 0; j+8 <= len(hb); j += 8 {
			hashes = append(hashes, binary.LittleEndian.Uint64(hb[j:]))
		}
	}
	sort.Slice(hashes, func(a, b int) bool { return hashes[a] < hashes[b] })
	distinct := 0
	for i := range hashes {
		if i == 0 || hashes[i] != hashes[i-1] {
			distinct++
		}
	}
	distinct += int(total.Counters["_distinct_n"])
	delete(total.Counters, "_distinct_n")
	if harnessErr {
		fmt.Fprintln(os.Stderr, "HARNESS-ERROR: not all shards completed; no verdict")
		return 2
	}

	// dedupe violations by key
	sort.SliceStable(viols, func(a, b int) bool { return viols[a].Key < viols[b].Key })
	var uniq []Violation
	for i, v := range viols {
		if i == 0 || v.Key != viols[i-1].Key {
			uniq = append(uniq, v)
		}
	}
	findings := loadFindings(spec.ID)
	known := map[string]*Finding{}
	var fresh []Violation
	var knownHits []Violation
	for _, v := range uniq {
		if fd := matchFinding(findings, v.Key); fd != nil {
			k := fd.Key + "|" + fd.Prefix
			if known[k] == nil {
				known[k] = fd
				knownHits = append(knownHits, v)
			}
			continue
		}
		fresh = append(fresh, v)
	}
	// development aid (never set by the registered commands): dump every
	// fresh violation as a candidate known-finding line for manual review
	if cand := os.Getenv("VERIF_FINDINGS_CANDIDATES"); cand != "" {
		var sb strings.Builder
		for _, v := range fresh {
			fd := Finding{Status: "known", Property: spec.ID, Key: v.Key, What: firstLine(v.Msg, 160)}
			b, _ := json.Marshal(fd)
			sb.Write(b)
			sb.WriteByte('\n')
		}
		os.WriteFile(cand, []byte(sb.String()), 0o644)
		fmt.Fprintf(os.Stderr, "wrote %d candidate findings to %s (review before committing)\n", len(fresh), cand)
		fresh = nil
	}
	// confirm fresh violations: 5 re-executions in fresh processes
	repDir := filepath.Join(OutDir, "replays")
	os.MkdirAll(repDir, 0o755)
	var confirmed []Violation
	var paths []string
	flaky := 0
	maxConfirm := 25
	if spec.MaxConfirm > 0 {
		maxConfirm = spec.MaxConfirm
	}
	for i, v := range fresh {
		rf := ReplayFile{Property: spec.ID, Key: v.Key, Msg: v.Msg, Kind: v.Kind, Case: v.Case,
			How: "cd /verif && ./run replay <this file>"}
		b, _ := json.MarshalIndent(rf, "", " ")
		p := filepath.Join(repDir, fmt.Sprintf("%s-%s.json", spec.ID, shortHash([]byte(v.Key))))
		os.WriteFile(p, b, 0o644)
		if i >= maxConfirm {
			// beyond the confirmation budget: report as they are
			confirmed = append(confirmed, v)
			paths = append(paths, p)
			continue
		}
		fails := 0
		for k := 0; k < 5; k++ {
			cctx, cancel := context.WithTimeout(context.Background(), 180*time.Second)
			rargs := []string{"-tier", tier, "-replay", p, "-quiet-replay"}
			cmd := exec.CommandContext(cctx, self, rargs...)
			cmd.Env = os.Environ()
			err := cmd.Run()
			cancel()
			if err != nil {
				fails++
			}
		}
		switch fails {
		case 5:
			confirmed = append(confirmed, v)
			paths = append(paths, p)
		case 0:
			fmt.Fprintf(os.Stderr, "HARNESS-ERROR: violation %q did not reproduce in 5 fresh replays (nondeterminism in the harness?)\n  %s\n  case: %s\n", v.Key, firstLine(v.Msg, 1500), firstLine(string(v.Case), 600))
			flaky++
			os.Remove(p)
		default:
			fmt.Fprintf(os.Stderr, "HARNESS-ERROR: violation %q reproduced %d/5 times (nondeterministic)\n", v.Key, fails)
			flaky++
			os.Remove(p)
		}
	}

	// evidence
	cov := map[string]interface{}{
		"evaluations":         total.Evals,
		"distinct_nontrivial": distinct,
		"rule":                spec.Rule,
		"samples":             total.Samples,
		"exhaustive":          !total.Capped,
		"shards":              n,
	}
	if len(total.Samples) == 0 {
		cov["samples"] = []interface{}{"(no samples recorded)"}
	}
	for k, v := range total.Counters {
		cov[k] = v
	}
	if total.Bounds != nil {
		cov["bounds"] = total.Bounds
	}
	if len(total.Notes) > 0 {
		cov["notes"] = total.Notes
	}
	if len(knownHits) > 0 {
		var ks []string
		for _, v := range knownHits {
			ks = append(ks, v.Key)
		}
		cov["known_findings_observed"] = ks
	}
	ev := map[string]interface{}{
		"property_id": spec.ID,
		"tier":        tier,
		"seed":        seed,
		"level":       spec.Level,
		"coverage":    cov,
		"assumptions": spec.Assumptions,
		"wall_s":      time.Since(t0).Seconds(),
		"violations":  len(confirmed),
	}
	eb, _ := json.MarshalIndent(ev, "", " ")
	os.MkdirAll(filepath.Join(OutDir, "evidence"), 0o755)
	if err := os.WriteFile(filepath.Join(OutDir, "evidence", spec.ID+".json"), eb, 0o644); err != nil {
		fmt.Fprintln(os.Stderr, "HARNESS-ERROR:", err)
		return 2
	}

	for k := range known {
		fd := known[k]
		fmt.Printf("KNOWN-FINDING: property=%s %s\n", spec.ID, fd.What)
	}
	for i, v := range confirmed {
		fmt.Printf("VIOLATION property=%s replay=%s\n", spec.ID, paths[i])
		msg := v.Msg
		if len(msg) > 1200 {
			msg = msg[:1200] + "..."
		}
		fmt.Printf("  key: %s\n  %s\n", v.Key, strings.ReplaceAll(msg, "\n", "\n  "))
	}
	fmt.Printf("%s %s: evaluations=%d distinct=%d exhaustive=%v violations=%d known=%d wall=%.1fs\n",
		spec.ID, tier, total.Evals, distinct, !total.Capped, len(confirmed), len(known), time.Since(t0).Seconds())
	// a violation that reproduced in all five fresh processes stands on its
	// own; observations that did not reproduce are reported above as harness
	// errors and decide the exit status only when nothing was confirmed
	if len(confirmed) > 0 {
		return 1
	}
	if flaky > 0 {
		return 2
	}
	return 0
}

func firstLine(s string, n int) string {
	if i := strings.IndexByte(s, '\n'); i >= 0 {
		s = s[:i]
	}
	if len(s) > n {
		s = s[:n] + "..."
	}
	return s
}

func shortHash(b []byte) string {
	h := sha256.Sum256(b)
	return hex.EncodeToString(h[:6])
}

func lastLines(s string, n int) string {
	ls := strings.Split(strings.TrimSpace(s), "\n")
	// prefer the head of a Go panic / fatal error over the tail of its stack
	for i, l := range ls {
		if strings.HasPrefix(l, "panic:") || strings.HasPrefix(l, "fatal error:") {
			end := i + n + 4
			if end > len(ls) {
				end = len(ls)
			}
			return strings.Join(ls[i:end], " | ")
		}
	}
	if len(ls) > n {
		ls = ls[len(ls)-n:]
	}
	return strings.Join(ls, " | ")
}
