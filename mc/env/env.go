// Package env provides the harness-owned environment of the reader and the
// writer: an io.ReadSeeker and an io.Writer whose every call is a choice
// point (default answer: succeed / fill the buffer), with programmable
// deviations.
package env

import (
	"errors"
	"fmt"
	"io"
)

// ErrInjected is the sentinel fault.
var ErrInjected = errors.New("injected fault")

// Deviation departs from the default answer at one call.
type Deviation struct {
	// Short: for Read, deliver at most this many bytes (>= 1).
	Short int `json:"short,omitempty"`
	// Fail: "sentinel" | "eof" | "unexpected-eof" | "temporary"; the call fails.
	Fail string `json:"fail,omitempty"`
	// WithData: for Read failures, deliver data (half the request) together with the error.
	WithData bool `json:"with_data,omitempty"`
}

// tempErr is an error of the kind network and timeout failures have: it
// implements Temporary() and Timeout() (net.Error), which callers use to
// decide whether to retry.
type tempErr struct{}

func (tempErr) Error() string   { return "injected temporary fault (i/o timeout)" }
func (tempErr) Temporary() bool { return true }
func (tempErr) Timeout() bool   { return true }

func failErr(kind string) error {
	switch kind {
	case "temporary":
		return tempErr{}
	case "eof":
		return io.EOF
	case "unexpected-eof":
		return io.ErrUnexpectedEOF
	}
	return ErrInjected
}

// Call is one logged call on the source.
type Call struct {
	Kind string // read | seek | readbyte
	Want int    // requested bytes (read)
	Got  int
}

// SourcePlan programs a Source.
type SourcePlan struct {
	Chunk       int               `json:"chunk,omitempty"`       // cap on bytes per Read (0 = no cap)
	Dev         map[int]Deviation `json:"deviations,omitempty"`  // by call index
	StickyFrom  int               `json:"sticky_from,omitempty"` // all calls >= this index fail (0 = off; use index+1)
	StickyKind  string            `json:"sticky_kind,omitempty"`
	EOFWithData bool              `json:"eof_with_data,omitempty"` // a read that reaches the end returns n>0 together with io.EOF
	ByteReader  bool              `json:"byte_reader,omitempty"`
}

// Source is an in-memory io.ReadSeeker under a plan.
type Source struct {
	Data  []byte
	Plan  SourcePlan
	pos   int64
	Calls []Call
	Fired int // number of failing answers given
}

func (s *Source) next(kind string, want int) (idx int, dev Deviation, has bool) {
	idx = len(s.Calls)
	s.Calls = append(s.Calls, Call{Kind: kind, Want: want})
	if s.Plan.StickyFrom > 0 && idx >= s.Plan.StickyFrom-1 {
		return idx, Deviation{Fail: s.Plan.StickyKind}, true
	}
	d, ok := s.Plan.Dev[idx]
	return idx, d, ok
}

// Read implements io.Reader.
func (s *Source) Read(p []byte) (int, error) {
	idx, dev, has := s.next("read", len(p))
	avail := int64(len(s.Data)) - s.pos
	if avail < 0 {
		avail = 0
	}
	n := len(p)
	if int64(n) > avail {
		n = int(avail)
	}
	if s.Plan.Chunk > 0 && n > s.Plan.Chunk {
		n = s.Plan.Chunk
	}
	if has && dev.Fail != "" {
		s.Fired++
		if dev.WithData && n > 1 {
			n = n / 2
			copy(p, s.Data[s.pos:s.pos+int64(n)])
			s.pos += int64(n)
			s.Calls[idx].Got = n
			return n, failErr(dev.Fail)
		}
		return 0, failErr(dev.Fail)
	}
	if has && dev.Short > 0 && n > dev.Short {
		n = dev.Short
	}
	if len(p) == 0 {
		return 0, nil
	}
	if n == 0 {
		return 0, io.EOF
	}
	copy(p, s.Data[s.pos:s.pos+int64(n)])
	s.pos += int64(n)
	s.Calls[idx].Got = n
	if s.Plan.EOFWithData && s.pos == int64(len(s.Data)) {
		return n, io.EOF
	}
	return n, nil
}

// Seek implements io.Seeker.
func (s *Source) Seek(off int64, whence int) (int64, error) {
	_, dev, has := s.next("seek", 0)
	if has && dev.Fail != "" {
		s.Fired++
		return 0, failErr(dev.Fail)
	}
	var np int64
	switch whence {
	case io.SeekStart:
		np = off
	case io.SeekCurrent:
		np = s.pos + off
	case io.SeekEnd:
		np = int64(len(s.Data)) + off
	default:
		return 0, fmt.Errorf("bad whence")
	}
	if np < 0 {
		return 0, fmt.Errorf("seek before start of file (%d)", np)
	}
	s.pos = np
	return np, nil
}

// ByteSource adds io.ByteReader (thrift's StreamTransport switches paths on it).
type ByteSource struct{ *Source }

// ReadByte implements io.ByteReader.
func (b ByteSource) ReadByte() (byte, error) {
	s := b.Source
	idx, dev, has := s.next("readbyte", 1)
	if has && dev.Fail != "" {
		s.Fired++
		return 0, failErr(dev.Fail)
	}
	if s.pos >= int64(len(s.Data)) {
		return 0, io.EOF
	}
	c := s.Data[s.pos]
	s.pos++
	s.Calls[idx].Got = 1
	return c, nil
}

// NewSource builds the io.ReadSeeker for a plan.
func NewSource(data []byte, plan SourcePlan) (io.ReadSeeker, *Source) {
	s := &Source{Data: data, Plan: plan}
	if plan.ByteReader {
		return ByteSource{s}, s
	}
	return s, s
}

// SinkPlan programs a Sink.
type SinkPlan struct {
	FailAt  int  `json:"fail_at"`           // index of the Write call that fails (-1 = never)
	FailAt2 int  `json:"fail_at2"`          // a second transient fault (-1 = none)
	Sticky  bool `json:"sticky,omitempty"`  // every later call fails as well
	Partial bool `json:"partial,omitempty"` // the failing call accepts half of the bytes
	Full    bool `json:"full,omitempty"`    // the failing call accepts all bytes and still returns an error
}

// Sink is an in-memory io.Writer under a plan.
type Sink struct {
	Plan  SinkPlan
	Buf   []byte
	Calls int
	Fired int
}

// Write implements io.Writer.
func (s *Sink) Write(p []byte) (int, error) {
	idx := s.Calls
	s.Calls++
	fail := idx == s.Plan.FailAt || (s.Plan.FailAt2 >= 0 && idx == s.Plan.FailAt2) || (s.Plan.Sticky && s.Plan.FailAt >= 0 && idx > s.Plan.FailAt)
	if fail {
		s.Fired++
		if s.Plan.Full {
			// legal for an io.Writer: n == len(p) together with a non-nil error
			s.Buf = append(s.Buf, p...)
			return len(p), ErrInjected
		}
		if s.Plan.Partial && len(p) > 1 {
			s.Buf = append(s.Buf, p[:len(p)/2]...)
			return len(p) / 2, ErrInjected
		}
		return 0, ErrInjected
	}
	s.Buf = append(s.Buf, p...)
	return len(p), nil
}
