// Package families defines the input/configuration families that C01, C02,
// C03 and C16 enumerate, and the runner that executes them against the
// oracles.
package families

import (
	"fmt"
	"reflect"
	"strings"

	"verif/mc/fw"
	"verif/mc/gen"
	"verif/mc/oracle"
	"verif/mc/refpq"
	"verif/mc/sut"
)

// Emit is called once per case; tag is unique by construction.
type Emit func(tag string, t *sut.Target, recs []refpq.Val, batches []int, page int, codec sut.Codec)

// Family enumerates cases.
type Family struct {
	Name string
	Gen  func(c *fw.Ctx, emit Emit)
}

var codecs2 = []sut.Codec{sut.Uncompressed, sut.Snappy}
var codecs3 = []sut.Codec{sut.Uncompressed, sut.Snappy, sut.Gzip}

// CheckFn judges one case.
type CheckFn func(t *sut.Target, recs []refpq.Val, batches []int, page int, codec sut.Codec) []oracle.Failure

// RunAll executes the families on this worker's shard with the given oracles.
func RunAll(c *fw.Ctx, flags oracle.Flags, fams []Family) {
	RunAllWith(c, flags, fams, func(t *sut.Target, recs []refpq.Val, batches []int, page int, codec sut.Codec) []oracle.Failure {
		_, fails := oracle.Run(t, recs, batches, page, codec, flags)
		return fails
	})
}

// RunAllWith executes the families with a custom judge; flags are recorded
// in the replayable case.
func RunAllWith(c *fw.Ctx, flags oracle.Flags, fams []Family, check CheckFn) {
	for _, fam := range fams {
		var n, mine int64
		stop := false
		fam.Gen(c, func(tag string, t *sut.Target, recs []refpq.Val, batches []int, page int, codec sut.Codec) {
			if stop {
				return
			}
			n++
			if !c.Mine() {
				return
			}
			if mine&63 == 0 && c.Expired() {
				stop = true
				c.Capped("time budget hit inside family " + fam.Name)
				return
			}
			mine++
			c.Eval()
			c.Distinct(fam.Name + "|" + tag)
			fails := check(t, recs, batches, page, codec)
			if c.WantSample() && mine%7 == 1 {
				c.Sample(oracle.Describe(t, recs, batches, page, codec))
			}
			for _, f := range fails {
				cs := oracle.MakeCase(t, recs, batches, page, codec, flags)
				cs.Note = fam.Name + "|" + tag
				c.Violate(oracle.Key(t, f), f.String()+"\ncase: "+fmt.Sprint(oracle.Describe(t, recs, batches, page, codec)), "case", cs)
			}
		})
		if c.Shard == 0 {
			c.Bound("family_"+fam.Name+"_cases", n)
		}
	}
}

// ---------------------------------------------------------------- family A

// miniAlphabet returns k structurally distinct Mini records (leaf values are
// filled per position so that order and loss are visible).
func structAlphabet(t *sut.Target, k int) []refpq.Val {
	all := gen.Structures(t.Schema(), 4, 2)
	// pick k spread over the enumeration, always including the empty
	// structure and the fullest one
	if k >= len(all) {
		return all
	}
	out := []refpq.Val{all[0]}
	for i := 1; i < k-1; i++ {
		out = append(out, all[i*(len(all)-1)/(k-1)])
	}
	return append(out, all[len(all)-1])
}

// BoundaryProduct is family A.
func BoundaryProduct(target string, k, maxN int, codecs []sut.Codec, gzipMaxN int) Family {
	return Family{Name: "A-" + target, Gen: func(c *fw.Ctx, emit Emit) {
		t := sut.Get(target)
		alpha := structAlphabet(t, k)
		k := len(alpha)
		for n := 1; n <= maxN; n++ {
			comps := gen.Compositions(n)
			total := 1
			for i := 0; i < n; i++ {
				total *= k
			}
			seq := make([]int, n)
			for x := 0; x < total; x++ {
				y := x
				for i := 0; i < n; i++ {
					seq[i] = y % k
					y /= k
				}
				f := &gen.Filler{}
				recs := make([]refpq.Val, n)
				for i := 0; i < n; i++ {
					recs[i] = gen.Fill(t.Schema(), alpha[seq[i]], f)
				}
				for ci, comp := range comps {
					for page := 1; page <= n+1; page++ {
						for _, cd := range codecs {
							if cd == sut.Gzip && n > gzipMaxN {
								continue
							}
							emit(fmt.Sprintf("n%d|s%d|c%d|p%d|z%d", n, x, ci, page, cd), t, recs, comp, page, cd)
						}
					}
				}
			}
		}
	}}
}

// WithOptStyle runs a family with the writer options passed in another style
// (sut.OptStyle: 1 = codec before page size; 2 = both options given twice,
// other values first, exists in the glue but is not registered in any family:
// what a duplicated option means is not specified by any property).
func WithOptStyle(style int, f Family) Family {
	return Family{Name: fmt.Sprintf("%s-opt%d", f.Name, style), Gen: func(c *fw.Ctx, emit Emit) {
		old := sut.OptStyle
		sut.OptStyle = style
		defer func() { sut.OptStyle = old }()
		f.Gen(c, func(tag string, t *sut.Target, recs []refpq.Val, batches []int, page int, codec sut.Codec) {
			emit(fmt.Sprintf("os%d|%s", style, tag), t, recs, batches, page, codec)
		})
	}}
}

// ---------------------------------------------------------------- family B

// OptionalBoolPacking is family B: one *bool column, alphabet {nil,t,f}.
func OptionalBoolPacking(maxN int) Family {
	return Family{Name: "B-obool", Gen: func(c *fw.Ctx, emit Emit) {
		t := sut.Get("obool")
		for n := 1; n <= maxN; n++ {
			total := 1
			for i := 0; i < n; i++ {
				total *= 3
			}
			for x := 0; x < total; x++ {
				y := x
				recs := make([]refpq.Val, n)
				for i := 0; i < n; i++ {
					id := refpq.Val{Leaf: int32(i + 1)}
					switch y % 3 {
					case 0:
						recs[i] = refpq.Val{Group: []refpq.Val{{Null: true}, id}}
					case 1:
						recs[i] = refpq.Val{Group: []refpq.Val{{Leaf: true}, id}}
					case 2:
						recs[i] = refpq.Val{Group: []refpq.Val{{Leaf: false}, id}}
					}
					y /= 3
				}
				for page := 1; page <= n+1; page++ {
					for split := 0; split < n; split++ {
						batches := []int{n}
						if split > 0 {
							batches = []int{split, n - split}
						}
						for _, cd := range codecs2 {
							emit(fmt.Sprintf("n%d|s%d|p%d|b%d|z%d", n, x, page, split, cd), t, recs, batches, page, cd)
						}
					}
				}
			}
		}
	}}
}

// RequiredBoolPacking: one required bool column (values bit-packed eight to a
// byte, no levels).  Every sequence over {t,f} up to length exhaustN; beyond
// that, up to maxN, the constant and alternating sequences and every
// sequence with a single odd value, with page sizes around 8 and 16 and the
// batch split at 8.
func RequiredBoolPacking(exhaustN, maxN int) Family {
	return Family{Name: "B-rbool", Gen: func(c *fw.Ctx, emit Emit) {
		t := sut.Get("rbool")
		mk := func(bits []bool) []refpq.Val {
			recs := make([]refpq.Val, len(bits))
			for i, b := range bits {
				recs[i] = refpq.Val{Group: []refpq.Val{{Leaf: b}, {Leaf: int32(i + 1)}}}
			}
			return recs
		}
		run := func(tag string, bits []bool, pages []int) {
			n := len(bits)
			recs := mk(bits)
			for _, page := range pages {
				if page > n+1 {
					continue
				}
				for _, split := range []int{0, 8} {
					batches := []int{n}
					if split > 0 {
						if split >= n {
							continue
						}
						batches = []int{split, n - split}
					}
					for _, cd := range codecs2 {
						emit(fmt.Sprintf("%s|p%d|b%d|z%d", tag, page, split, cd), t, recs, batches, page, cd)
					}
				}
			}
		}
		for n := 1; n <= exhaustN; n++ {
			var pages []int
			for p := 1; p <= n+1; p++ {
				pages = append(pages, p)
			}
			for x := 0; x < 1<<uint(n); x++ {
				bits := make([]bool, n)
				for i := range bits {
					bits[i] = x>>uint(i)&1 == 1
				}
				run(fmt.Sprintf("n%d|x%d", n, x), bits, pages)
			}
		}
		for n := exhaustN + 1; n <= maxN; n++ {
			pages := []int{1, 7, 8, 9, 15, 16, 17, n, 0}
			var seqs [][]bool
			for _, k := range []int{0, 1, 2, 3} { // all f, all t, tftf, ftft
				bits := make([]bool, n)
				for i := range bits {
					bits[i] = k == 1 || (k == 2 && i%2 == 0) || (k == 3 && i%2 == 1)
				}
				seqs = append(seqs, bits)
			}
			for i := 0; i < n; i++ {
				a, b := make([]bool, n), make([]bool, n)
				a[i] = true
				for j := range b {
					b[j] = j != i
				}
				seqs = append(seqs, a, b)
			}
			for si, bits := range seqs {
				run(fmt.Sprintf("n%d|q%d", n, si), bits, pages)
			}
		}
	}}
}

// ---------------------------------------------------------------- family C

// fullRecord returns the record with every optional set and every list of length l.
func fullRecord(root *refpq.Node, l int, f *gen.Filler) refpq.Val {
	var inner func(n *refpq.Node) refpq.Val
	var node func(n *refpq.Node) refpq.Val
	inner = func(n *refpq.Node) refpq.Val {
		if n.Leaf {
			return refpq.Val{Leaf: f.Next(n.GoKind)}
		}
		out := refpq.Val{Group: make([]refpq.Val, len(n.Children))}
		for i, c := range n.Children {
			out.Group[i] = node(c)
		}
		return out
	}
	node = func(n *refpq.Node) refpq.Val {
		if n.Rep == refpq.Repeated {
			out := refpq.Val{}
			for i := 0; i < l; i++ {
				out.List = append(out.List, inner(n))
			}
			return out
		}
		return inner(n)
	}
	return inner(root)
}

// substitute returns a deep copy of rec with the first occurrence of leaf set to v.
func substitute(root *refpq.Node, rec refpq.Val, leaf *refpq.Node, v interface{}) refpq.Val {
	done := false
	var inner func(n *refpq.Node, x refpq.Val) refpq.Val
	var node func(n *refpq.Node, x refpq.Val) refpq.Val
	inner = func(n *refpq.Node, x refpq.Val) refpq.Val {
		if n.Leaf {
			if n == leaf && !done {
				done = true
				return refpq.Val{Leaf: v}
			}
			return x
		}
		out := refpq.Val{Group: make([]refpq.Val, len(n.Children))}
		for i, c := range n.Children {
			out.Group[i] = node(c, x.Group[i])
		}
		return out
	}
	node = func(n *refpq.Node, x refpq.Val) refpq.Val {
		switch n.Rep {
		case refpq.Optional:
			if x.Null {
				return x
			}
			return inner(n, x)
		case refpq.Repeated:
			out := refpq.Val{}
			for _, e := range x.List {
				out.List = append(out.List, inner(n, e))
			}
			return out
		}
		return inner(n, x)
	}
	return inner(root, rec)
}

// ValueSweep is family C.
func ValueSweep(target string, pairs bool) Family {
	return Family{Name: "C-" + target, Gen: func(c *fw.Ctx, emit Emit) {
		t := sut.Get(target)
		root := t.Schema()
		leaves := root.Leaves()
		f := &gen.Filler{}
		base := []refpq.Val{fullRecord(root, 2, f), fullRecord(root, 2, f), fullRecord(root, 1, f)}
		pages := []int{1, 2, 0}
		for li, leaf := range leaves {
			for ai, a := range gen.Alphabet(leaf.GoKind) {
				recs := []refpq.Val{base[0], substitute(root, base[1], leaf, a), base[2]}
				for _, page := range pages {
					for _, cd := range codecs3 {
						emit(fmt.Sprintf("l%d|a%d|p%d|z%d", li, ai, page, cd), t, recs, []int{3}, page, cd)
					}
				}
				if !pairs || li+1 >= len(leaves) {
					continue
				}
				next := leaves[li+1]
				for bi, b := range gen.Alphabet(next.GoKind) {
					r1 := substitute(root, substitute(root, base[1], leaf, a), next, b)
					recs := []refpq.Val{base[0], r1, base[2]}
					for _, cd := range codecs2 {
						emit(fmt.Sprintf("l%d|a%d|b%d|z%d", li, ai, bi, cd), t, recs, []int{2, 1}, 2, cd)
					}
				}
			}
		}
	}}
}

// ---------------------------------------------------------------- family D

// LongRuns is family D: run-structured long inputs.
func LongRuns(target string, ns []int, gzip bool) Family {
	return Family{Name: "D-" + target, Gen: func(c *fw.Ctx, emit Emit) {
		t := sut.Get(target)
		root := t.Schema()
		patterns := []string{"none-null", "all-null", "alternating", "one-in-8", "lists-2", "biglist"}
		for _, n := range ns {
			for pi, pat := range patterns {
				f := &gen.Filler{}
				recs := make([]refpq.Val, n)
				if pat == "biglist" {
					// long lists: one record whose lists hold n elements,
					// between two ordinary records
					recs = []refpq.Val{patterned(root, "lists-2", 0, f), bigList(root, n, f), patterned(root, "alternating", 1, f)}
				} else {
					for i := 0; i < n; i++ {
						recs[i] = patterned(root, pat, i, f)
					}
				}
				if pat == "biglist" {
					if !hasRepeated(root) {
						continue
					}
					for _, cd := range codecs2 {
						emit(fmt.Sprintf("n%d|biglist|p0|z%d", n, cd), t, recs, []int{3}, 0, cd)
						emit(fmt.Sprintf("n%d|biglist|p1|z%d", n, cd), t, recs, []int{2, 1}, 1, cd)
					}
					continue
				}
				pages := []int{1, 7, 8, 9, 0, n}
				for _, page := range pages {
					if page == 1 && n > 1100 {
						continue // 4097 chained one-record pages: covered at n <= 1024
					}
					cds := codecs2
					if gzip && n <= 65 {
						cds = codecs3
					}
					for _, cd := range cds {
						emit(fmt.Sprintf("n%d|%s|p%d|z%d|one", n, pat, page, cd), t, recs, []int{n}, page, cd)
						if n >= 9 && page != 1 {
							emit(fmt.Sprintf("n%d|%s|p%d|z%d|split", n, pat, page, cd), t, recs, []int{8, n - 8}, page, cd)
						}
					}
				}
				_ = pi
			}
		}
	}}
}

// MidRange sweeps the sizes between the small exhaustive cases and the
// boundary cases, one file per size: every record count 1..maxN (alternating
// nulls; default page size, one page, pages of 100), every list length
// 0..maxN in one record, every string length 0..maxN (mapped onto the
// target's string leaves).  A threshold the code itself introduces anywhere in
// that range (a buffer of 300 entries, a count of 1000, ...) is crossed.
func MidRange(target string, maxN int) Family {
	return Family{Name: "M-" + target, Gen: func(c *fw.Ctx, emit Emit) {
		t := sut.Get(target)
		root := t.Schema()
		for n := 1; n <= maxN; n++ {
			f := &gen.Filler{}
			recs := make([]refpq.Val, n)
			for i := range recs {
				recs[i] = patterned(root, "alternating", i, f)
			}
			emit(fmt.Sprintf("count%d|p0", n), t, recs, []int{n}, 0, sut.Snappy)
			if n%3 == 0 {
				emit(fmt.Sprintf("count%d|pn", n), t, recs, []int{n}, n, sut.Uncompressed)
			}
			if n > 100 && n%3 == 1 {
				emit(fmt.Sprintf("count%d|p100", n), t, recs, []int{n}, 100, sut.Snappy)
			}
		}
		if hasRepeated(root) {
			for n := 0; n <= maxN; n++ {
				f := &gen.Filler{}
				recs := []refpq.Val{bigList(root, n, f), patterned(root, "lists-2", 1, f)}
				emit(fmt.Sprintf("list%d", n), t, recs, []int{2}, 0, sut.Snappy)
			}
		}
		for n := 0; n <= maxN; n++ {
			f := &gen.Filler{}
			r0 := mapStrings(root, patterned(root, "none-null", 0, f), func(string) string { return strings.Repeat("z", n) })
			recs := []refpq.Val{r0, patterned(root, "none-null", 1, f)}
			emit(fmt.Sprintf("strlen%d", n), t, recs, []int{2}, 0, sut.Uncompressed)
		}
	}}
}

func hasRepeated(n *refpq.Node) bool {
	for _, l := range n.Leaves() {
		if l.RepLevel > 0 {
			return true
		}
	}
	return false
}

// bigList builds a record whose outermost lists hold n elements (inner lists 1).
func bigList(root *refpq.Node, n int, f *gen.Filler) refpq.Val {
	var inner func(x *refpq.Node, depth int) refpq.Val
	var node func(x *refpq.Node, depth int) refpq.Val
	inner = func(x *refpq.Node, depth int) refpq.Val {
		if x.Leaf {
			return refpq.Val{Leaf: f.Next(x.GoKind)}
		}
		out := refpq.Val{Group: make([]refpq.Val, len(x.Children))}
		for i, c := range x.Children {
			out.Group[i] = node(c, depth)
		}
		return out
	}
	node = func(x *refpq.Node, depth int) refpq.Val {
		if x.Rep == refpq.Repeated {
			l := 1
			if depth == 0 {
				l = n
			}
			out := refpq.Val{}
			for k := 0; k < l; k++ {
				out.List = append(out.List, inner(x, depth+1))
			}
			return out
		}
		return inner(x, depth)
	}
	return inner(root, 0)
}

func patterned(root *refpq.Node, pat string, i int, f *gen.Filler) refpq.Val {
	null := false
	l := 1
	switch pat {
	case "all-null":
		null = true
		l = 0
	case "alternating":
		null = i%2 == 1
		l = i % 2
	case "one-in-8":
		null = i%8 != 0
		l = 0
		if i%8 == 0 {
			l = 3
		}
	case "lists-2":
		l = 2
	}
	var inner func(n *refpq.Node) refpq.Val
	var node func(n *refpq.Node) refpq.Val
	inner = func(n *refpq.Node) refpq.Val {
		if n.Leaf {
			return refpq.Val{Leaf: f.Next(n.GoKind)}
		}
		out := refpq.Val{Group: make([]refpq.Val, len(n.Children))}
		for i, c := range n.Children {
			out.Group[i] = node(c)
		}
		return out
	}
	node = func(n *refpq.Node) refpq.Val {
		switch n.Rep {
		case refpq.Optional:
			if null {
				return refpq.Val{Null: true}
			}
			return inner(n)
		case refpq.Repeated:
			out := refpq.Val{}
			for k := 0; k < l; k++ {
				out.List = append(out.List, inner(n))
			}
			return out
		}
		return inner(n)
	}
	return inner(root)
}

// ---------------------------------------------------------------- family E

// StructureExhaustive is family E: every record structure with <= s
// constructor nodes, singly and in ordered pairs.
func StructureExhaustive(target string, s, listMax int, pairs bool, pairCap int) Family {
	return Family{Name: "E-" + target, Gen: func(c *fw.Ctx, emit Emit) {
		t := sut.Get(target)
		root := t.Schema()
		all := gen.Structures(root, s, listMax)
		if c.Shard == 0 {
			c.Bound("family_E-"+target+"_structures", len(all))
		}
		for i, st := range all {
			f := &gen.Filler{}
			r := gen.Fill(root, st, f)
			for _, page := range []int{1, 0} {
				emit(fmt.Sprintf("single%d|p%d", i, page), t, []refpq.Val{r}, []int{1}, page, sut.Snappy)
			}
			emit(fmt.Sprintf("single%d|unc", i), t, []refpq.Val{r}, []int{1}, 0, sut.Uncompressed)
		}
		if !pairs {
			return
		}
		m := len(all)
		if pairCap > 0 && m > pairCap {
			// pairs over the first pairCap structures (enumeration order is by
			// position, so these are the shallowest) plus the last ones
			m = pairCap
			c.Note("family E-%s: pairs restricted to the first %d of %d structures", target, pairCap, len(all))
		}
		for i := 0; i < m; i++ {
			for j := 0; j < m; j++ {
				f := &gen.Filler{}
				recs := []refpq.Val{gen.Fill(root, all[i], f), gen.Fill(root, all[j], f)}
				emit(fmt.Sprintf("pair%d,%d|p1", i, j), t, recs, []int{2}, 1, sut.Snappy)
				emit(fmt.Sprintf("pair%d,%d|p2", i, j), t, recs, []int{2}, 2, sut.Snappy)
				emit(fmt.Sprintf("pair%d,%d|b11", i, j), t, recs, []int{1, 1}, 0, sut.Uncompressed)
			}
		}
	}}
}

// ---------------------------------------------------------------- family F

// NestedLists is family F: records whose lists, at every nesting level, take
// every combination of lengths from a menu (outer element i gets inner length
// pattern[i]), so that "an element with several inner elements followed by
// another non-empty element" and the like are all present.
func NestedLists(target string, lens []int) Family {
	return Family{Name: "F-" + target, Gen: func(c *fw.Ctx, emit Emit) {
		t := sut.Get(target)
		root := t.Schema()
		// every assignment of (outer length, inner length for first outer
		// element, inner length for the other outer elements)
		k := 0
		for _, outer := range lens {
			for _, in0 := range lens {
				for _, inRest := range lens {
					f := &gen.Filler{}
					build := func(null bool) refpq.Val { return nestedRecord(root, outer, in0, inRest, null, f) }
					recs := []refpq.Val{build(false), build(true), build(false)}
					emit(fmt.Sprintf("o%d|i%d|r%d|p0", outer, in0, inRest), t, recs, []int{3}, 0, sut.Snappy)
					emit(fmt.Sprintf("o%d|i%d|r%d|p1", outer, in0, inRest), t, recs[:2], []int{1, 1}, 1, sut.Uncompressed)
					k++
				}
			}
		}
	}}
}

func nestedRecord(root *refpq.Node, outer, in0, inRest int, nullOpt bool, f *gen.Filler) refpq.Val {
	var inner func(x *refpq.Node, depth, idx int) refpq.Val
	var node func(x *refpq.Node, depth, idx int) refpq.Val
	inner = func(x *refpq.Node, depth, idx int) refpq.Val {
		if x.Leaf {
			return refpq.Val{Leaf: f.Next(x.GoKind)}
		}
		out := refpq.Val{Group: make([]refpq.Val, len(x.Children))}
		for i, c := range x.Children {
			out.Group[i] = node(c, depth, idx)
		}
		return out
	}
	node = func(x *refpq.Node, depth, idx int) refpq.Val {
		switch x.Rep {
		case refpq.Optional:
			if nullOpt && x.Leaf {
				return refpq.Val{Null: true}
			}
			return inner(x, depth, idx)
		case refpq.Repeated:
			l := outer
			if depth > 0 {
				l = inRest
				if idx == 0 {
					l = in0
				}
			}
			out := refpq.Val{}
			for k := 0; k < l; k++ {
				out.List = append(out.List, inner(x, depth+1, k))
			}
			return out
		}
		return inner(x, depth, idx)
	}
	return inner(root, 0, 0)
}

// ---------------------------------------------------------------- family G

// Extremes is family G: dimensions that the other families keep small - very
// long strings (length-prefix boundaries), many row groups, many pages.
func Extremes(target string, thorough bool) Family {
	return Family{Name: "G-" + target, Gen: func(c *fw.Ctx, emit Emit) {
		t := sut.Get(target)
		root := t.Schema()
		lens := []int{255, 256, 65535, 65536}
		if thorough {
			lens = append(lens, 1<<20+3)
		}
		if target == "mini" {
			// one value of 17 MB and one of 33 MB (above 2^24 and 2^25 bytes, where
			// size limits of the thrift layer and of buffers tend to sit); the
			// value is also the page's min / max statistic
			lens = append(lens, 17<<20+5, 33<<20+1)
		}
		// (1) huge strings in every string leaf, one leaf at a time
		for li, leaf := range root.Leaves() {
			if leaf.GoKind != reflect.String {
				continue
			}
			for _, n := range lens {
				f := &gen.Filler{}
				base := []refpq.Val{fullRecord(root, 2, f), fullRecord(root, 1, f), fullRecord(root, 2, f)}
				big := strings.Repeat("\x00\xffab", n/4+1)[:n]
				recs := []refpq.Val{base[0], substitute(root, base[1], leaf, big), base[2]}
				for _, cd := range codecs3 {
					if n > 16<<20 && cd != sut.Snappy {
						continue
					}
					emit(fmt.Sprintf("str|l%d|n%d|z%d", li, n, cd), t, recs, []int{2, 1}, 2, cd)
				}
			}
		}
		// (2) many row groups and many pages
		for _, nb := range []int{10, 33} {
			f := &gen.Filler{}
			var recs []refpq.Val
			var batches []int
			for b := 0; b < nb; b++ {
				k := 1 + b%3
				for i := 0; i < k; i++ {
					recs = append(recs, patterned(root, []string{"lists-2", "alternating", "none-null", "all-null"}[(b+i)%4], b+i, f))
				}
				batches = append(batches, k)
			}
			for _, page := range []int{1, 2, 0} {
				for _, cd := range codecs2 {
					emit(fmt.Sprintf("batches%d|p%d|z%d", nb, page, cd), t, recs, batches, page, cd)
				}
			}
		}
	}}
}

// EmptyFiles: a writer that is closed without any written batch.
func EmptyFiles(targets ...string) Family {
	return Family{Name: "Z-empty", Gen: func(c *fw.Ctx, emit Emit) {
		for _, tn := range targets {
			if !sut.Has(tn) {
				continue
			}
			t := sut.Get(tn)
			for _, cd := range codecs3 {
				for _, page := range []int{0, 1} {
					emit(fmt.Sprintf("%s|p%d|z%d", tn, page, cd), t, nil, nil, page, cd)
				}
			}
		}
	}}
}

// ---------------------------------------------------------------- selections

// ForC01 returns the families of C01 (also reused by C02 and C16).
func ForC01(thorough bool) []Family {
	if !thorough {
		return []Family{
			BoundaryProduct("mini", 4, 5, codecs2, 0),
			BoundaryProduct("mini", 3, 3, []sut.Codec{sut.Gzip}, 3),
			BoundaryProduct("flat3", 3, 4, codecs2, 0),
			OptionalBoolPacking(7),
			RequiredBoolPacking(8, 25),
			MidRange("mini", 1100),
			ValueSweep("flat24", false),
			ValueSweep("person", false),
			LongRuns("mini", []int{8, 9, 504, 505, 1000, 1001, 8191, 8192, 8193}, true),
			LongRuns("obool", []int{7, 8, 9, 18, 27, 63, 64, 65, 504, 505, 1000, 1001}, false),
			Extremes("mini", false),
			Extremes("person", false),
			Extremes("flat24", false),
			EmptyFiles("mini", "person", "flat24", "document"),
			LongRuns("flat24", []int{8, 9, 16, 17}, false),
			LongRuns("person", []int{8, 9, 16, 17}, false),
			StructureExhaustive("person", 2, 2, true, 40),
			StructureExhaustive("document", 5, 2, true, 60),
			StructureExhaustive("repetition", 5, 2, true, 60),
			StructureExhaustive("readme", 4, 2, true, 0),
			StructureExhaustive("reqdeep", 3, 2, true, 0),
			StructureExhaustive("samename", 3, 2, true, 0),
			StructureExhaustive("nest3", 4, 2, true, 80),
			StructureExhaustive("oddnames", 3, 2, true, 100),
			StructureExhaustive("wide70", 2, 2, true, 80),
			StructureExhaustive("deep5", 5, 2, true, 0),
			StructureExhaustive("samedeep", 4, 2, true, 0),
			BoundaryProduct("one", 4, 4, codecs2, 0),
			WithOptStyle(1, BoundaryProduct("mini", 3, 3, codecs3, 3)),
			BoundaryProduct("oneopt", 3, 3, codecs2, 0),
			BoundaryProduct("onerep", 3, 3, codecs2, 0),
			NestedLists("document", []int{0, 1, 2, 3}),
			NestedLists("repetition", []int{0, 1, 2, 3}),
			NestedLists("person", []int{0, 1, 2, 3}),
			NestedLists("nest3", []int{0, 1, 2, 3}),
			NestedLists("readme", []int{0, 1, 2, 3}),
			ValueSweep("nest16", false),
			ValueSweep("nestrep", false),
			StructureExhaustive("nest16", 3, 2, true, 40),
			StructureExhaustive("nestrep", 3, 2, true, 60),
			LongRuns("nest16", []int{8, 9, 17}, false),
			LongRuns("nestrep", []int{8, 9, 17}, false),
			NestedLists("nestrep", []int{0, 1, 2, 3}),
			StructureExhaustive("rep3", 6, 2, true, 80),
			NestedLists("rep3", []int{0, 1, 2, 3}),
			LongRuns("rep3", []int{8, 9, 17}, false),
			StructureExhaustive("ochain", 4, 2, true, 80),
			LongRuns("ochain", []int{8, 9, 17}, false),
		}
	}
	long := []int{7, 8, 9, 63, 64, 65, 503, 504, 505, 511, 512, 513, 1000, 1024, 4097, 8191, 8192, 8193, 65537}
	return []Family{
		BoundaryProduct("mini", 6, 6, codecs2, 0),
		BoundaryProduct("mini", 4, 3, []sut.Codec{sut.Gzip}, 3),
		BoundaryProduct("flat3", 4, 5, codecs2, 0),
		OptionalBoolPacking(9),
		RequiredBoolPacking(11, 40),
		MidRange("mini", 4200),
		MidRange("person", 1100),
		ValueSweep("flat24", true),
		ValueSweep("person", true),
		LongRuns("mini", long, true),
		LongRuns("obool", long, true),
		LongRuns("flat3", long, false),
		LongRuns("person", []int{8, 9, 504, 505, 1000, 1001}, false),
		StructureExhaustive("person", 3, 2, true, 120),
		StructureExhaustive("document", 5, 2, true, 200),
		StructureExhaustive("repetition", 5, 2, true, 200),
		StructureExhaustive("readme", 5, 2, true, 200),
		StructureExhaustive("flat24", 2, 2, false, 0),
		LongRuns("flat24", long, false),
		Extremes("mini", true),
		Extremes("person", true),
		Extremes("flat24", true),
		Extremes("document", true),
		EmptyFiles("mini", "person", "flat24", "document", "repetition", "flat3"),
		StructureExhaustive("reqdeep", 4, 2, true, 0),
		StructureExhaustive("samename", 4, 2, true, 0),
		StructureExhaustive("nest3", 6, 2, true, 300),
		StructureExhaustive("oddnames", 4, 2, true, 300),
		StructureExhaustive("wide70", 3, 2, true, 300),
		StructureExhaustive("deep5", 7, 2, true, 0),
		StructureExhaustive("samedeep", 6, 2, true, 0),
		BoundaryProduct("one", 6, 6, codecs2, 0),
		WithOptStyle(1, BoundaryProduct("mini", 4, 4, codecs3, 3)),
		BoundaryProduct("oneopt", 5, 5, codecs2, 0),
		BoundaryProduct("onerep", 4, 4, codecs2, 0),
		NestedLists("document", []int{0, 1, 2, 3, 4, 9}),
		NestedLists("repetition", []int{0, 1, 2, 3, 4, 9}),
		NestedLists("person", []int{0, 1, 2, 3, 4, 9}),
		NestedLists("nest3", []int{0, 1, 2, 3, 4, 9}),
		NestedLists("readme", []int{0, 1, 2, 3, 4, 9}),
		// the shapes added last: same bounds as the quick tier (the deeper
		// bounds of these families were not run to completion on the final
		// tree, so they are not registered)
		ValueSweep("nest16", false),
		ValueSweep("nestrep", false),
		StructureExhaustive("nest16", 3, 2, true, 40),
		StructureExhaustive("nestrep", 3, 2, true, 60),
		LongRuns("nest16", []int{8, 9, 17}, false),
		LongRuns("nestrep", []int{8, 9, 17}, false),
		NestedLists("nestrep", []int{0, 1, 2, 3}),
		StructureExhaustive("rep3", 6, 2, true, 80),
		NestedLists("rep3", []int{0, 1, 2, 3}),
		LongRuns("rep3", []int{8, 9, 17}, false),
		StructureExhaustive("ochain", 4, 2, true, 80),
		LongRuns("ochain", []int{8, 9, 17}, false),
	}
}

var _ = reflect.TypeOf
var _ = strings.Repeat

// ForC02Extra adds footer-stress shapes (registered only for C02).
func ForC02Extra(thorough bool) []Family {
	var out []Family
	for _, name := range []string{"nest3", "samename", "reqdeep", "ochainw"} {
		if !sut.Has(name) {
			continue
		}
		s := 3
		if thorough && name != "ochainw" {
			s = 4
		}
		out = append(out, StructureExhaustive(name, s, 2, true, 80))
	}
	return out
}

// ForC03 returns the families of C03.
func ForC03(thorough bool) []Family {
	if !thorough {
		return []Family{
			StructureExhaustive("person", 3, 2, true, 120),
			StructureExhaustive("document", 5, 2, true, 200),
			StructureExhaustive("repetition", 5, 2, true, 200),
			StructureExhaustive("readme", 5, 2, true, 200),
			StructureExhaustive("mini", 5, 3, true, 0),
			StructureExhaustive("flat3", 5, 3, true, 0),
			StructureExhaustive("reqdeep", 3, 2, true, 0),
			StructureExhaustive("samename", 3, 2, true, 0),
			StructureExhaustive("nest3", 5, 2, true, 200),
			StructureExhaustive("oddnames", 3, 2, true, 150),
			StructureExhaustive("wide70", 2, 2, true, 120),
			StructureExhaustive("deep5", 5, 2, true, 0),
			StructureExhaustive("samedeep", 4, 2, true, 0),
			NestedLists("document", []int{0, 1, 2, 3}),
			NestedLists("repetition", []int{0, 1, 2, 3}),
			NestedLists("nest3", []int{0, 1, 2, 3}),
			LongRuns("mini", []int{8, 9, 504, 505, 1000, 1001, 8191, 8192, 8193}, false),
			MidRange("mini", 1100),
			LongRuns("flat3", []int{504, 505, 1001}, false),
			LongRuns("document", []int{8, 9, 505}, false),
			StructureExhaustive("nest16", 3, 2, true, 60),
			StructureExhaustive("nestrep", 3, 2, true, 100),
			NestedLists("nestrep", []int{0, 1, 2, 3}),
			LongRuns("nestrep", []int{8, 9, 505}, false),
			StructureExhaustive("rep3", 6, 2, true, 150),
			NestedLists("rep3", []int{0, 1, 2, 3}),
			StructureExhaustive("ochain", 4, 2, true, 150),
			StructureExhaustive("ochainw", 4, 2, true, 0),
		}
	}
	return []Family{
		StructureExhaustive("person", 4, 2, true, 250),
		StructureExhaustive("document", 7, 3, true, 500),
		StructureExhaustive("repetition", 7, 3, true, 500),
		StructureExhaustive("readme", 7, 3, true, 500),
		StructureExhaustive("mini", 7, 4, true, 600),
		StructureExhaustive("flat3", 7, 4, true, 600),
		StructureExhaustive("reqdeep", 4, 2, true, 0),
		StructureExhaustive("samename", 4, 2, true, 0),
		StructureExhaustive("nest3", 7, 2, true, 500),
		StructureExhaustive("oddnames", 4, 2, true, 300),
		StructureExhaustive("wide70", 3, 2, true, 300),
		StructureExhaustive("deep5", 7, 2, true, 0),
		NestedLists("document", []int{0, 1, 2, 3, 4, 9}),
		NestedLists("repetition", []int{0, 1, 2, 3, 4, 9}),
		NestedLists("nest3", []int{0, 1, 2, 3, 4, 9}),
		LongRuns("mini", []int{7, 8, 9, 63, 64, 65, 503, 504, 505, 511, 512, 513, 1000, 1024, 4097, 8191, 8192, 8193, 65537}, false),
		LongRuns("flat3", []int{504, 505, 1001, 4097, 8192, 8193}, false),
		LongRuns("document", []int{8, 9, 504, 505, 1001}, false),
		LongRuns("repetition", []int{8, 9, 505}, false),
		StructureExhaustive("nest16", 4, 2, true, 200),
		StructureExhaustive("nestrep", 4, 2, true, 300),
		NestedLists("nestrep", []int{0, 1, 2, 3, 4, 9}),
		LongRuns("nestrep", []int{8, 9, 504, 505, 1001}, false),
		StructureExhaustive("rep3", 8, 2, true, 400),
		NestedLists("rep3", []int{0, 1, 2, 3, 4, 9}),
		StructureExhaustive("ochain", 6, 2, true, 400),
		StructureExhaustive("ochainw", 6, 2, true, 400),
	}
}

// Workload is a fixed write workload used by the environment checks.
type Workload struct {
	Name    string
	Target  string
	Recs    []refpq.Val
	Batches []int
	Page    int
	Codec   sut.Codec
}

// MixedRecords returns n structurally varied records of the target.
func MixedRecords(t *sut.Target, n int) []refpq.Val {
	f := &gen.Filler{}
	pats := []string{"lists-2", "alternating", "none-null", "all-null", "one-in-8"}
	out := make([]refpq.Val, n)
	for i := range out {
		out[i] = patterned(t.Schema(), pats[i%len(pats)], i, f)
	}
	return out
}

// RunRecords returns n records whose level streams consist of long runs: the
// first half with every optional null and every list empty, the second half
// with everything set (lists of one element).
func RunRecords(t *sut.Target, n int) []refpq.Val {
	f := &gen.Filler{}
	out := make([]refpq.Val, n)
	for i := range out {
		pat := "all-null"
		if i >= n/2 {
			pat = "none-null"
		}
		out[i] = patterned(t.Schema(), pat, i, f)
	}
	return out
}

// DenseRecords returns n records with every optional set and lists of length 1-2.
func DenseRecords(t *sut.Target, n int) []refpq.Val {
	f := &gen.Filler{}
	out := make([]refpq.Val, n)
	for i := range out {
		out[i] = fullRecord(t.Schema(), 1+i%2, f)
	}
	return out
}

// Workloads lists the standard workloads: target x codec x layout.
func Workloads(targets []string, codecs []sut.Codec) []Workload {
	var out []Workload
	for _, tn := range targets {
		t := sut.Get(tn)
		for _, cd := range codecs {
			out = append(out,
				Workload{fmt.Sprintf("%s/%s/1rg-1page", tn, cd), tn, MixedRecords(t, 3), []int{3}, 0, cd},
				Workload{fmt.Sprintf("%s/%s/multipage", tn, cd), tn, MixedRecords(t, 5), []int{5}, 2, cd},
				Workload{fmt.Sprintf("%s/%s/2rg", tn, cd), tn, MixedRecords(t, 6), []int{3, 3}, 2, cd},
			)
		}
	}
	return out
}

// HeaderVaryWorkloads are multi-page files of the all-required target reqdeep
// whose page headers change size inside every column chunk: 19 records in
// pages of 9, 9 and 1 rows, string lengths 30-38 / 0-2 / 80 per page.  The
// serialised sizes and the statistics of the pages shrink from page 1 to
// page 2 and grow again (strings) or shrink at the last page (fixed width
// columns: 72 -> 8 bytes crosses the two-byte varint boundary).
func HeaderVaryWorkloads(codecs []sut.Codec) []Workload {
	t := sut.Get("reqdeep")
	recs := DenseRecords(t, 19)
	for i := range recs {
		l := 30 + i
		switch {
		case i >= 18:
			l = 80
		case i >= 9:
			l = i % 3
		}
		recs[i] = mapStrings(t.Schema(), recs[i], func(string) string {
			return strings.Repeat(string(rune('a'+i%26)), l)
		})
	}
	var out []Workload
	for _, cd := range codecs {
		out = append(out, Workload{fmt.Sprintf("reqdeep/%s/hdrvary", cd), "reqdeep", recs, []int{19}, 9, cd})
	}
	return out
}

// BigPageWorkloads are single-row-group files with one page of about 2.6 MB
// (40 strings of 64-66 KiB; above the 1 MiB and 2 MiB marks at which a reader
// might switch to reading in steps): in flat3 the big page is in the middle
// column (another chunk follows it), in tailstr it is the last page of the
// file.
func BigPageWorkloads(codecs []sut.Codec) []Workload {
	const n = 40
	big := func(i int) string {
		return strings.Repeat(string(rune('a'+i%26)), 65536+i*53) + fmt.Sprint(i)
	}
	mid := make([]refpq.Val, n)
	tail := make([]refpq.Val, n)
	for i := 0; i < n; i++ {
		cl := refpq.Val{}
		if i%4 == 1 {
			cl = refpq.Val{List: []refpq.Val{{Leaf: int32(i)}, {Leaf: int32(-i)}}}
		}
		mid[i] = refpq.Val{Group: []refpq.Val{{Leaf: int64(i)*1000003 + 7}, {Leaf: big(i)}, cl}}
		tail[i] = refpq.Val{Group: []refpq.Val{{Leaf: int32(i + 1)}, {Leaf: big(i)}}}
	}
	var out []Workload
	for _, cd := range codecs {
		out = append(out,
			Workload{fmt.Sprintf("flat3/%s/bigpage", cd), "flat3", mid, []int{n}, n, cd},
			Workload{fmt.Sprintf("tailstr/%s/bigpage", cd), "tailstr", tail, []int{n}, n, cd})
	}
	return out
}

// Pow2PageWorkloads: flat3 with 8192 records in pages of 4096 rows, so that
// every page of the required int64 column holds exactly 32 768 plain bytes
// (the window size of the deflate and snappy decoders), followed by more
// pages and columns.
func Pow2PageWorkloads(codecs []sut.Codec) []Workload {
	const n = 8192
	recs := make([]refpq.Val, n)
	for i := range recs {
		b := refpq.Val{Null: true}
		if i%7 == 0 {
			b = refpq.Val{Leaf: fmt.Sprintf("s%d", i)}
		}
		cl := refpq.Val{}
		if i%5 == 1 {
			cl = refpq.Val{List: []refpq.Val{{Leaf: int32(i)}}}
		}
		recs[i] = refpq.Val{Group: []refpq.Val{{Leaf: int64(i)*2654435761 + 11}, b, cl}}
	}
	var out []Workload
	for _, cd := range codecs {
		out = append(out, Workload{fmt.Sprintf("flat3/%s/pow2page", cd), "flat3", recs, []int{n}, 4096, cd})
	}
	return out
}

// mapStrings rewrites every string leaf of a record.
func mapStrings(root *refpq.Node, v refpq.Val, fn func(string) string) refpq.Val {
	var inner func(n *refpq.Node, v refpq.Val) refpq.Val
	var node func(n *refpq.Node, v refpq.Val) refpq.Val
	inner = func(n *refpq.Node, v refpq.Val) refpq.Val {
		if n.Leaf {
			if s, ok := v.Leaf.(string); ok {
				return refpq.Val{Leaf: fn(s)}
			}
			return v
		}
		out := refpq.Val{Group: make([]refpq.Val, len(n.Children))}
		for i, c := range n.Children {
			out.Group[i] = node(c, v.Group[i])
		}
		return out
	}
	node = func(n *refpq.Node, v refpq.Val) refpq.Val {
		switch n.Rep {
		case refpq.Optional:
			if v.Null {
				return v
			}
			return inner(n, v)
		case refpq.Repeated:
			out := refpq.Val{List: make([]refpq.Val, len(v.List))}
			for i, e := range v.List {
				out.List[i] = inner(n, e)
			}
			return out
		}
		return inner(n, v)
	}
	return inner(root, v)
}

// Codecs3 is all three codecs.
func Codecs3() []sut.Codec { return codecs3 }

// ForC16 returns the file families of C16.
func ForC16(thorough bool) []Family {
	if !thorough {
		return []Family{
			BoundaryProduct("mini", 4, 3, codecs3, 3),
			BoundaryProduct("flat3", 3, 3, codecs2, 0),
			LongRuns("mini", []int{8, 9, 504, 505}, false),
			StructureExhaustive("person", 2, 2, true, 30),
			StructureExhaustive("document", 3, 2, true, 40),
			StructureExhaustive("samedeep", 2, 2, true, 0),
			Extremes("mini", false),
			Extremes("person", false),
			EmptyFiles("mini", "person", "document", "flat3"),
		}
	}
	return []Family{
		BoundaryProduct("mini", 5, 4, codecs3, 4),
		BoundaryProduct("flat3", 4, 4, codecs2, 0),
		LongRuns("mini", []int{7, 8, 9, 63, 64, 65, 503, 504, 505, 1000, 1024, 4097}, true),
		LongRuns("person", []int{8, 9, 504, 505, 1001}, false),
		StructureExhaustive("person", 3, 2, true, 80),
		StructureExhaustive("document", 4, 2, true, 120),
		Extremes("mini", true),
		Extremes("person", true),
		Extremes("flat24", true),
		EmptyFiles("mini", "person", "document", "flat3"),
	}
}
