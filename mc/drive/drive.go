// Package drive runs generated writers/readers on behalf of the checks.
package drive

import (
	"bytes"
	"fmt"
	"io"
	"reflect"

	"verif/mc/fw"
	"verif/mc/refpq"
	"verif/mc/sut"
)

// WriteFile adds the batches (one Write per batch) and closes.  pending
// records are added after the last Write and left unwritten.
func WriteFile(t *sut.Target, batches [][]interface{}, pending []interface{}, page int, codec sut.Codec, afterAdd func(rec interface{})) (file []byte, err error, panicMsg string) {
	var buf bytes.Buffer
	panicMsg = fw.Protect(func() {
		var w sut.Writer
		w, err = t.NewWriter(&buf, page, codec)
		if err != nil {
			return
		}
		for _, b := range batches {
			for _, r := range b {
				w.Add(r)
				if afterAdd != nil {
					afterAdd(r)
				}
			}
			if err = w.Write(); err != nil {
				return
			}
		}
		for _, r := range pending {
			w.Add(r)
		}
		err = w.Close()
	})
	return buf.Bytes(), err, panicMsg
}

// ReadResult is what the documented read loop produced.
type ReadResult struct {
	Recs     []interface{} // struct values as scanned
	Snap     []refpq.Val   // snapshot taken at scan time
	Rows     int64
	OpenErr  error
	Err      error // Error() after Next returned false
	Panic    string
	MaxIter  bool
	Aliasing string // non-empty when an already scanned record changed later
}

// ReadAll runs the documented loop: for r.Next() { r.Scan(&x) }; r.Error().
func ReadAll(t *sut.Target, src io.ReadSeeker, maxRows int) ReadResult {
	var res ReadResult
	res.Panic = fw.Protect(func() {
		r, err := t.NewReader(src)
		if err != nil {
			res.OpenErr = err
			return
		}
		res.Rows = r.Rows()
		var ptrs []reflect.Value
		for r.Next() {
			if len(res.Recs) >= maxRows {
				res.MaxIter = true
				break
			}
			p := reflect.New(t.Type)
			r.ScanInto(p.Interface())
			ptrs = append(ptrs, p)
			res.Recs = append(res.Recs, p.Elem().Interface())
			res.Snap = append(res.Snap, refpq.FromGo(t.Schema(), p.Elem()))
		}
		res.Err = r.Error()
		for i, p := range ptrs {
			now := refpq.FromGo(t.Schema(), p.Elem())
			if d := refpq.EqualVal(t.Schema(), res.Snap[i], now); d != "" {
				res.Aliasing = fmt.Sprintf("record %d changed after it was scanned: %s", i, d)
				break
			}
		}
	})
	return res
}

// Scramble overwrites everything reachable from rec through pointers and
// slices (what a caller could mutate after Add without touching the copy the
// writer received by value).
func Scramble(rec interface{}) {
	v := reflect.ValueOf(rec)
	scramble(v, false)
}

func scramble(v reflect.Value, settable bool) {
	switch v.Kind() {
	case reflect.Ptr:
		if !v.IsNil() {
			scramble(v.Elem(), true)
		}
	case reflect.Slice:
		for i := 0; i < v.Len(); i++ {
			scramble(v.Index(i), true)
		}
	case reflect.Struct:
		for i := 0; i < v.NumField(); i++ {
			if v.Type().Field(i).PkgPath != "" {
				continue
			}
			scramble(v.Field(i), settable)
		}
	default:
		if !settable || !v.CanSet() {
			return
		}
		switch v.Kind() {
		case reflect.Int32, reflect.Int64:
			v.SetInt(v.Int() ^ 0x5a5a5a)
		case reflect.Uint32, reflect.Uint64:
			v.SetUint(v.Uint() ^ 0x5a5a5a)
		case reflect.Float32, reflect.Float64:
			v.SetFloat(-12345.678)
		case reflect.Bool:
			v.SetBool(!v.Bool())
		case reflect.String:
			v.SetString("SCRAMBLED" + v.String())
		}
	}
}

// CompareRecords checks got against want (as generic values).
func CompareRecords(schema *refpq.Node, want []refpq.Val, got []refpq.Val) string {
	if len(want) != len(got) {
		return fmt.Sprintf("%d records read, %d written", len(got), len(want))
	}
	for i := range want {
		if d := refpq.EqualVal(schema, want[i], got[i]); d != "" {
			return fmt.Sprintf("record %d: %s", i, d)
		}
	}
	return ""
}
