// vrun is the driver behind /verif/run: it rebuilds parquetgen and the
// generated reader/writer packages from /repo's current working tree, builds
// the requested check binary against them and runs it.
package main

import (
	"encoding/json"
	"fmt"
	"os"
	"os/exec"
	"path/filepath"
	"sort"
	"strings"
	"syscall"
	"time"

	"verif/mc/shapes"
	"verif/mc/sut"
)

type checkDef struct {
	pkg     string   // import path of the check package (has func Main())
	shapes  []string // catalogue shapes to generate
	modfile string   // alternate modfile ("" = go.mod)
}

var checks = map[string]checkDef{
	"C01": {pkg: "verif/mc/checks/c01", shapes: []string{"rep3", "ochain", "nest16", "nestrep", "mini", "flat24", "person", "document", "repetition", "readme", "obool", "flat3", "samename", "reqdeep", "nest3", "oddnames", "wide70", "deep5", "samedeep", "rbool", "one", "oneopt", "onerep"}},
	"C02": {pkg: "verif/mc/checks/c02", shapes: []string{"ochainw", "rep3", "ochain", "nest16", "nestrep", "mini", "flat24", "person", "document", "repetition", "readme", "obool", "flat3", "samename", "reqdeep", "nest3", "oddnames", "wide70", "deep5", "samedeep", "rbool", "one", "oneopt", "onerep"}},
	"C03": {pkg: "verif/mc/checks/c03", shapes: []string{"ochainw", "rep3", "ochain", "nest16", "nestrep", "mini", "person", "document", "repetition", "readme", "flat3", "samename", "reqdeep", "nest3", "oddnames", "wide70", "deep5", "samedeep"}},
	"C04": {pkg: "verif/mc/checks/c04", shapes: []string{"rep3", "ochain", "nest16", "nestrep", "mini", "person", "document", "flat3", "obool"}},
	"C05": {pkg: "verif/mc/checks/c05"},
	"C06": {pkg: "verif/mc/checks/c06", shapes: []string{"mini", "flat3", "person", "one", "oneopt", "onerep", "rbool"}},
	"C07": {pkg: "verif/mc/checks/c07"},
	"C08": {pkg: "verif/mc/checks/c08", shapes: []string{"rep3", "ochain", "nest16", "nestrep", "mini", "person", "flat24", "document", "reqdeep", "flat3", "tailstr"}},
	"C09": {pkg: "verif/mc/checks/c09", shapes: []string{"mini", "person", "tailstr"}},
	"C10": {pkg: "verif/mc/checks/c10", shapes: []string{"rep3", "ochain", "nest16", "nestrep", "mini", "person", "flat24", "document", "flat3", "tailstr"}},
	"C11": {pkg: "verif/mc/checks/c11", shapes: []string{"mini", "person", "flat24", "flat3", "tailstr", "idonly"}},
	"C12": {pkg: "verif/mc/checks/c12", shapes: []string{"flat24", "person", "document", "nest16"}},
	"C13": {pkg: "verif/mc/checks/c13", shapes: []string{"mini", "flat3", "flat24"}, modfile: "go.sched.mod"},
	"C14": {pkg: "verif/mc/checks/c14"},
	"C15": {pkg: "verif/mc/checks/c15"},
	"C16": {pkg: "verif/mc/checks/c16", shapes: []string{"mini", "person", "document", "flat3", "samedeep", "flat24"}},
	"C17": {pkg: "verif/mc/checks/c17"},
	"C18": {pkg: "verif/mc/checks/c18", shapes: []string{"mini", "person", "document", "flat3"}},
}

var slotLocks []*os.File

var scratchPersistent bool

// dirSizeOver reports whether the files under dir add up to more than limit bytes.
func dirSizeOver(dir string, limit int64) bool {
	var total int64
	filepath.Walk(dir, func(_ string, info os.FileInfo, err error) error {
		if err == nil && !info.IsDir() {
			total += info.Size()
		}
		if total > limit {
			return filepath.SkipAll
		}
		return nil
	})
	return total > limit
}

var mcDir = func() string {
	if d := os.Getenv("VERIF_MC"); d != "" {
		return d
	}
	return "/verif/mc"
}()

func die(format string, a ...interface{}) {
	fmt.Fprintf(os.Stderr, "HARNESS-ERROR: "+format+"\n", a...)
	os.Exit(2)
}

func run(dir string, name string, args ...string) (string, error) {
	cmd := exec.Command(name, args...)
	cmd.Dir = dir
	out, err := cmd.CombinedOutput()
	return string(out), err
}

// altRepo, when VERIF_REPO is set (development aid: run the checks against a
// scratch worktree without touching /repo), makes every build use a copy of
// the modfile whose replace directive points there.  Registered commands
// never set it.
var altRepo = os.Getenv("VERIF_REPO")

var altFiles = map[string]string{}

func modfileFor(name string) string {
	if name == "" {
		name = "go.mod"
	}
	src := filepath.Join(mcDir, name)
	if altRepo == "" {
		if name == "go.mod" {
			return ""
		}
		return src
	}
	if p, ok := altFiles[name]; ok {
		return p
	}
	b, err := os.ReadFile(src)
	if err != nil {
		die("%v", err)
	}
	txt := strings.Replace(string(b), "=> /repo", "=> "+altRepo, 1)
	txt = strings.Replace(txt, "=> ../shim/bytebufferpool", "=> "+filepath.Join(filepath.Dir(mcDir), "shim", "bytebufferpool"), 1)
	dir := filepath.Join(mcDir, "work", fmt.Sprintf("alt-%d", os.Getpid()))
	os.MkdirAll(dir, 0o755)
	p := filepath.Join(dir, name)
	os.WriteFile(p, []byte(txt), 0o644)
	sum, _ := os.ReadFile(strings.TrimSuffix(src, ".mod") + ".sum")
	os.WriteFile(strings.TrimSuffix(p, ".mod")+".sum", sum, 0o644)
	altFiles[name] = p
	return p
}

func goBuild(def checkDef, out string, pkg string) {
	args := []string{"build", "-tags", "verif"}
	if mf := modfileFor(def.modfile); mf != "" {
		args = append(args, "-modfile="+mf)
	}
	args = append(args, "-o", out, pkg)
	if o, err := run(mcDir, "go", args...); err != nil {
		die("go %s failed: %v\n%s", strings.Join(args, " "), err, o)
	}
}

// prepare builds parquetgen, generates the shapes and builds the check
// binary.  It returns the run directory and the binary path.
func prepare(id string, tag string) (string, string) {
	def, ok := checks[id]
	if !ok {
		die("unknown check %q", id)
	}
	if _, err := os.Stat(filepath.Join(mcDir, strings.TrimPrefix(def.pkg, "verif/mc/"))); err != nil {
		die("check %s is not built yet (%v)", id, err)
	}
	// Run directories are import paths of the generated packages, and the Go
	// build cache is keyed by import path: a per-process name would add a
	// fresh copy of every generated package to the cache on every run.  So
	// directories come from a small set of reusable slots, each guarded by a
	// file lock for the life of this process.
	runName := ""
	os.MkdirAll(filepath.Join(mcDir, "work", "slots"), 0o755)
	for slot := 0; slot < 64 && runName == ""; slot++ {
		name := fmt.Sprintf("%s-%s-s%d", strings.ToLower(id), tag, slot)
		f, err := os.OpenFile(filepath.Join(mcDir, "work", "slots", name+".lock"), os.O_CREATE|os.O_RDWR, 0o644)
		if err != nil {
			continue
		}
		if syscall.Flock(int(f.Fd()), syscall.LOCK_EX|syscall.LOCK_NB) != nil {
			f.Close()
			continue
		}
		slotLocks = append(slotLocks, f) // held until exit
		runName = name
	}
	if runName == "" {
		runName = fmt.Sprintf("%s-%s-%d", strings.ToLower(id), tag, os.Getpid())
	}
	runDir := filepath.Join(mcDir, "work", runName)
	os.RemoveAll(runDir)
	if err := os.MkdirAll(filepath.Join(runDir, "bin"), 0o755); err != nil {
		die("%v", err)
	}
	pg := filepath.Join(runDir, "bin", "parquetgen")
	goBuild(checkDef{}, pg, "github.com/parsyl/parquet/cmd/parquetgen")
	var imports []string
	for _, sn := range def.shapes {
		sh := shapes.Get(sn)
		d := filepath.Join(runDir, "gen", sh.Name)
		os.MkdirAll(d, 0o755)
		src := "package " + sh.Name + "\n" + sh.Src
		if err := os.WriteFile(filepath.Join(d, "types.go"), []byte(src), 0o644); err != nil {
			die("%v", err)
		}
		if o, err := run(d, pg, "-input", "types.go", "-type", sh.Type, "-package", sh.Name, "-output", "parquet.go"); err != nil {
			// a catalogue shape that parquetgen no longer accepts: every check
			// needs these, so report it as a violation of the generator
			// property rather than a harness error.
			fmt.Printf("parquetgen failed on catalogue shape %s: %v\n%s\n", sh.Name, err, o)
			writeGenFailure(id, sh.Name, o)
			os.RemoveAll(runDir)
			os.Exit(1)
		}
		if err := os.WriteFile(filepath.Join(d, "glue.go"), []byte(sut.GlueSource(sh.Name, sh.Name, sh.Type)), 0o644); err != nil {
			die("%v", err)
		}
		imports = append(imports, fmt.Sprintf("\t_ \"verif/mc/work/%s/gen/%s\"\n", runName, sh.Name))
	}
	mainDir := filepath.Join(runDir, "main")
	os.MkdirAll(mainDir, 0o755)
	mainSrc := "package main\n\nimport (\n\tcheck \"" + def.pkg + "\"\n" + strings.Join(imports, "") + ")\n\nfunc main() { check.Main() }\n"
	os.WriteFile(filepath.Join(mainDir, "main.go"), []byte(mainSrc), 0o644)
	if id == "C13" {
		// the free-running -race pass is a second binary over the same
		// generated packages, linked against the real bytebufferpool
		rd := filepath.Join(runDir, "racemain")
		os.MkdirAll(rd, 0o755)
		src := "package main\n\nimport (\n\trace \"verif/mc/checks/c13/race\"\n" + strings.Join(imports, "") + ")\n\nfunc main() { race.Main() }\n"
		os.WriteFile(filepath.Join(rd, "main.go"), []byte(src), 0o644)
	}
	bin := filepath.Join(runDir, "bin", "check")
	args := []string{"build", "-tags", "verif"}
	if mf := modfileFor(def.modfile); mf != "" {
		args = append(args, "-modfile="+mf)
	}
	args = append(args, "-o", bin, "./work/"+runName+"/main")
	if o, err := run(mcDir, "go", args...); err != nil {
		// generated code for a catalogue shape does not compile (or the
		// library API changed): that is a finding about the tree, not a
		// harness problem, if the error is inside generated or library code.
		fmt.Printf("build of check %s against the current tree failed:\n%s\n", id, o)
		if strings.Contains(o, "/gen/") || strings.Contains(o, "/repo/") {
			writeGenFailure(id, "build", o)
			os.RemoveAll(runDir)
			os.Exit(1)
		}
		os.RemoveAll(runDir)
		die("build failed")
	}
	return runDir, bin
}

// writeGenFailure records a violation when the catalogue no longer
// generates/compiles with the tree under test.
func writeGenFailure(id, what, output string) {
	verif := filepath.Dir(mcDir)
	if d := os.Getenv("VERIF_OUT_DIR"); d != "" {
		verif = d
	}
	os.MkdirAll(filepath.Join(verif, "replays"), 0o755)
	p := filepath.Join(verif, "replays", id+"-catalogue-build.json")
	if len(output) > 4000 {
		output = output[:4000]
	}
	b, _ := json.MarshalIndent(map[string]interface{}{
		"property": id, "key": "catalogue-build:" + what, "kind": "build",
		"msg":  "parquetgen or the Go compiler rejects a catalogue shape with the tree under test",
		"case": map[string]string{"what": what, "output": output},
	}, "", " ")
	os.WriteFile(p, b, 0o644)
	ev := map[string]interface{}{
		"property_id": id, "tier": envOr("VERIF_TIER", "quick"), "seed": 0, "level": "exploration",
		"coverage": map[string]interface{}{"evaluations": 1, "distinct_nontrivial": 2, "rule": "catalogue build failed before exploration",
			"samples": []string{what}, "exhaustive": false},
		"wall_s": 0.0, "violations": 1,
	}
	eb, _ := json.MarshalIndent(ev, "", " ")
	os.MkdirAll(filepath.Join(verif, "evidence"), 0o755)
	os.WriteFile(filepath.Join(verif, "evidence", id+".json"), eb, 0o644)
	fmt.Printf("VIOLATION property=%s replay=%s\n", id, p)
}

func envOr(k, d string) string {
	if v := os.Getenv(k); v != "" {
		return v
	}
	return d
}

func execCheck(runDir, bin string, args ...string) int {
	cmd := exec.Command(bin, args...)
	cmd.Dir = mcDir
	cmd.Stdout = os.Stdout
	cmd.Stderr = os.Stderr
	env := os.Environ()
	if altRepo != "" {
		// nested go invocations (program batches, the race build) follow the
		// same redirection through GOFLAGS
		env = append(env, "GOFLAGS=-mod=mod -modfile="+modfileFor("go.mod"))
	}
	cmd.Env = append(env,
		"VERIF_WORK="+runDir,
		"VERIF_PARQUETGEN="+filepath.Join(runDir, "bin", "parquetgen"),
		"VERIF_MC="+mcDir,
		"VERIF_RUNPKG=verif/mc/work/"+filepath.Base(runDir),
	)
	err := cmd.Run()
	if err == nil {
		return 0
	}
	if ee, ok := err.(*exec.ExitError); ok {
		return ee.ExitCode()
	}
	fmt.Fprintln(os.Stderr, "HARNESS-ERROR:", err)
	return 2
}

// progChecks generate and compile programs in fixed directories
// (work/<id>/<tier>/...) so that identical generated packages hit the build
// cache; runs of the same check and tier are serialised with a file lock.
var progChecks = map[string]bool{"C05": true, "C14": true, "C15": true}

func lockFor(id, tier string) func() {
	if !progChecks[id] {
		return func() {}
	}
	os.MkdirAll(filepath.Join(mcDir, "work"), 0o755)
	f, err := os.OpenFile(filepath.Join(mcDir, "work", strings.ToLower(id)+"."+tier+".lock"), os.O_CREATE|os.O_RDWR, 0o644)
	if err != nil {
		die("%v", err)
	}
	if err := syscall.Flock(int(f.Fd()), syscall.LOCK_EX); err != nil {
		die("flock: %v", err)
	}
	return func() { syscall.Flock(int(f.Fd()), syscall.LOCK_UN); f.Close() }
}

func cleanStale() {
	// remove run directories older than 6 hours left behind by killed runs
	ents, _ := os.ReadDir(filepath.Join(mcDir, "work"))
	for _, e := range ents {
		if info, err := e.Info(); err == nil && time.Since(info.ModTime()) > 6*time.Hour {
			os.RemoveAll(filepath.Join(mcDir, "work", e.Name()))
		}
	}
}

func main() {
	if len(os.Args) < 2 {
		die("usage: vrun setup | check <ID> [--tier quick|thorough] | replay <file> | list")
	}
	switch os.Args[1] {
	case "list":
		var ids []string
		for id := range checks {
			ids = append(ids, id)
		}
		sort.Strings(ids)
		fmt.Println(strings.Join(ids, " "))
	case "setup":
		cleanStale()
		// warm the build cache: every check binary once
		var ids []string
		for id := range checks {
			ids = append(ids, id)
		}
		sort.Strings(ids)
		for _, id := range ids {
			if _, err := os.Stat(filepath.Join(mcDir, strings.TrimPrefix(checks[id].pkg, "verif/mc/"))); err != nil {
				continue
			}
			runDir, _ := prepare(id, "setup")
			if id == "C13" {
				// warm the -race build of the free-running pass
				if o, err := run(mcDir, "go", "build", "-race", "-tags", "verif", "-o", filepath.Join(runDir, "bin", "race"), "./work/"+filepath.Base(runDir)+"/racemain"); err != nil {
					fmt.Printf("setup: race build failed: %v\n%s\n", err, o)
				}
			}
			os.RemoveAll(runDir)
			fmt.Println("setup: built", id)
		}
	case "check":
		if len(os.Args) < 3 {
			die("check needs an id")
		}
		id := strings.ToUpper(os.Args[2])
		tier := envOr("VERIF_TIER", "quick")
		for i := 3; i < len(os.Args); i++ {
			if (os.Args[i] == "--tier" || os.Args[i] == "-tier") && i+1 < len(os.Args) {
				tier = os.Args[i+1]
			}
		}
		cleanStale()
		unlock := lockFor(id, tier)
		runDir, bin := prepare(id, tier)
		if progChecks[id] && tier != "thorough" {
			// The quick program checks compile thousands of generated packages.
			// On an unchanged tree they should hit a cache; on every changed
			// tree they add new entries.  They get their own persistent build
			// cache, wiped whenever it has grown past a bound, so that repeated
			// runs against many different trees cannot fill the disk.
			gc := filepath.Join(filepath.Dir(mcDir), ".cache", "gocache-prog")
			if dirSizeOver(gc, 24<<30) {
				exec.Command("chmod", "-R", "u+w", gc).Run()
				os.RemoveAll(gc)
			}
			os.MkdirAll(gc, 0o755)
			os.Setenv("VERIF_SCRATCH_GOCACHE", gc)
			scratchPersistent = true
		}
		if progChecks[id] && tier == "thorough" {
			// ~10^5 throw-away packages: keep them out of the user's build cache
			gc := filepath.Join(mcDir, "work", strings.ToLower(id)+"-gocache")
			os.RemoveAll(gc)
			os.Setenv("VERIF_SCRATCH_GOCACHE", gc)
			defer os.RemoveAll(gc)
		}
		code := execCheck(runDir, bin, "-tier", tier)
		os.RemoveAll(runDir)
		os.RemoveAll(filepath.Join(mcDir, "work", fmt.Sprintf("alt-%d", os.Getpid())))
		if gc := os.Getenv("VERIF_SCRATCH_GOCACHE"); gc != "" && !scratchPersistent {
			exec.Command("chmod", "-R", "u+w", gc).Run()
			os.RemoveAll(gc)
		}
		if progChecks[id] {
			os.RemoveAll(filepath.Join(mcDir, "work", strings.ToLower(id), tier))
		}
		unlock()
		os.Exit(code)
	case "replay":
		if len(os.Args) < 3 {
			die("replay needs a file")
		}
		b, err := os.ReadFile(os.Args[2])
		if err != nil {
			die("%v", err)
		}
		var rf struct {
			Property string `json:"property"`
			Kind     string `json:"kind"`
		}
		if err := json.Unmarshal(b, &rf); err != nil {
			die("replay file: %v", err)
		}
		if rf.Kind == "build" {
			runDir, _ := prepare(rf.Property, "replay")
			os.RemoveAll(runDir)
			fmt.Printf("replay: property=%s catalogue builds with this tree\n", rf.Property)
			os.Exit(0)
		}
		abs, _ := filepath.Abs(os.Args[2])
		runDir, bin := prepare(rf.Property, "replay")
		code := execCheck(runDir, bin, "-replay", abs)
		os.RemoveAll(runDir)
		os.Exit(code)
	default:
		die("unknown command %q", os.Args[1])
	}
}
