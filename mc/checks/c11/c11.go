// Package c11: a truncated file is never accepted.  Every strict prefix of
// every workload file is opened and iterated.
package c11

import (
	"bytes"
	"encoding/json"
	"fmt"
	"sort"
	"strings"
	"time"

	"verif/mc/drive"
	"verif/mc/families"
	"verif/mc/fw"
	"verif/mc/oracle"
	"verif/mc/refpq"
	"verif/mc/sut"
)

type tcase struct {
	Workload string `json:"workload"`
	Len      int    `json:"prefix_len"`
}

var thoroughTier bool
var wlCache map[string]families.Workload
var fileCache = map[string][]byte{}

func workloads() map[string]families.Workload {
	if wlCache == nil {
		wlCache = map[string]families.Workload{}
		for _, w := range families.Workloads([]string{"mini", "person"}, families.Codecs3()) {
			wlCache[w.Name] = w
		}
		if thoroughTier {
			for _, tn := range []string{"mini", "person"} {
				tt := sut.Get(tn)
				for _, cd := range families.Codecs3() {
					w := families.Workload{Name: fmt.Sprintf("%s/%s/big", tn, cd), Target: tn, Recs: families.MixedRecords(tt, 150), Batches: []int{70, 50, 30}, Page: 16, Codec: cd}
					wlCache[w.Name] = w
				}
			}
		}
		// files without any row group (only magic + footer + magic) and files
		// with a single record
		for _, tn := range []string{"mini", "person"} {
			tt := sut.Get(tn)
			for _, cd := range families.Codecs3() {
				wlCache[fmt.Sprintf("%s/%s/empty", tn, cd)] = families.Workload{Name: fmt.Sprintf("%s/%s/empty", tn, cd), Target: tn, Recs: nil, Batches: nil, Page: 0, Codec: cd}
				wlCache[fmt.Sprintf("%s/%s/one", tn, cd)] = families.Workload{Name: fmt.Sprintf("%s/%s/one", tn, cd), Target: tn, Recs: families.MixedRecords(tt, 1), Batches: []int{1}, Page: 0, Codec: cd}
			}
		}
		t := sut.Get("flat24")
		for _, cd := range families.Codecs3() {
			w := families.Workload{Name: fmt.Sprintf("flat24/%s/3rg", cd), Target: "flat24", Recs: families.MixedRecords(t, 7), Batches: []int{3, 2, 2}, Page: 2, Codec: cd}
			wlCache[w.Name] = w
		}
		for _, w := range embedWorkloads() {
			wlCache[w.Name] = w
		}
	}
	return wlCache
}

// embedWorkloads: files whose data embeds the image of a footer.  The first
// row group is that of a smaller file F1; a string value of the second row
// group is <F1's footer, padded with a key/value entry to a chosen length>
// <its length> "XXXX".  Written uncompressed, the value (and the copies in the
// page statistics) appears verbatim, so the prefix that ends right after a
// copy ends like a complete file in everything but the magic bytes: a reader
// that locates the footer from the length alone - for some range of footer
// sizes - accepts it.  Lengths straddle the sizes at which a reader might
// switch strategy (one 4 KiB / 64 KiB block).
func embedWorkloads() []families.Workload {
	t := sut.Get("mini")
	tags := -1
	for i, ch := range t.Schema().Children {
		if ch.Name == "tags" {
			tags = i
		}
	}
	first := families.MixedRecords(t, 3)
	f1 := fileOf(families.Workload{Name: "mini/uncompressed/embed-f1", Target: "mini", Recs: first, Batches: []int{3}, Page: 0, Codec: sut.Uncompressed})
	pf, err := refpq.ParseFile(f1, refpq.ParseOptions{})
	if err != nil || tags < 0 {
		panic(fmt.Sprintf("embed: %v", err))
	}
	sizes := []int{0, 4000, 4200, 9000}
	if thoroughTier {
		sizes = append(sizes, 66000)
	}
	var out []families.Workload
	for _, pad := range sizes {
		ft, _, err := refpq.DecodeStruct(f1[pf.FooterStart : pf.FooterStart+pf.FooterLen])
		if err != nil {
			panic(err)
		}
		if pad > 0 {
			kv := (&refpq.TS{}).Set(1, refpq.VStr("pad")).Set(2, refpq.VBin(bytes.Repeat([]byte{'p'}, pad)))
			ft.Set(5, refpq.VList(refpq.TStruct, []refpq.TVal{refpq.VStruct(kv)}))
		}
		img := refpq.EncodeStruct(ft)
		v := append(append([]byte(nil), img...), byte(len(img)), byte(len(img)>>8), byte(len(img)>>16), byte(len(img)>>24))
		v = append(v, "XXXX"...)
		last := families.MixedRecords(t, 1)[0]
		last.Group = append([]refpq.Val(nil), last.Group...)
		last.Group[tags] = refpq.Val{List: []refpq.Val{{Leaf: string(v)}}}
		recs := append(append([]refpq.Val(nil), first...), last)
		name := fmt.Sprintf("mini/uncompressed/embed-footer-%d", len(img))
		out = append(out, families.Workload{Name: name, Target: "mini", Recs: recs, Batches: []int{3, 1}, Page: 0, Codec: sut.Uncompressed})
	}
	return out
}

func fileOf(w families.Workload) []byte {
	if f, ok := fileCache[w.Name]; ok {
		return f
	}
	t := sut.Get(w.Target)
	var bs [][]interface{}
	g := oracle.GoRecs(t, w.Recs)
	p := 0
	for _, n := range w.Batches {
		bs = append(bs, g[p:p+n])
		p += n
	}
	f, err, pm := drive.WriteFile(t, bs, nil, w.Page, w.Codec, nil)
	if err != nil || pm != "" {
		panic(fmt.Sprintf("workload %s cannot be written: %v %s", w.Name, err, pm))
	}
	fileCache[w.Name] = f
	return f
}

func runPrefix(w families.Workload, n int) string {
	t := sut.Get(w.Target)
	file := fileOf(w)
	if n >= len(file) {
		return ""
	}
	prefix := file[:n]
	rr := drive.ReadAll(t, bytes.NewReader(prefix), len(w.Recs)+8)
	if rr.Panic != "" {
		return "panic: " + rr.Panic
	}
	if rr.OpenErr != nil || rr.Err != nil {
		return ""
	}
	// accepted without any error: only legitimate if the prefix happens to be
	// a complete valid file itself (excluded by construction; verified here)
	if pf, err := refpq.ParseFile(prefix, refpq.ParseOptions{}); err == nil && len(pf.Problems) == 0 {
		return ""
	}
	return fmt.Sprintf("a file cut to %d of %d bytes is accepted: constructor ok, Error()==nil, %d rows delivered (Rows()=%d)", n, len(file), len(rr.Recs), rr.Rows)
}

func region(w families.Workload, n int) string {
	file := fileOf(w)
	pf, err := refpq.ParseFile(file, refpq.ParseOptions{})
	if err != nil {
		return "?"
	}
	switch {
	case n < 4:
		return "leading-magic"
	case n < pf.FooterStart:
		return "data"
	case n < len(file)-8:
		return "footer"
	case n < len(file)-4:
		return "footer-length"
	}
	return "trailing-magic"
}

// tailGrid: the reader locates the footer from the last 8 bytes only, so
// whether a cut inside the tail is noticed depends on what the bytes before
// it happen to be (the end of the footer, i.e. the last row group's row count
// and the footer's own length).  For a grid of (number of row groups, rows in
// the last row group) every cut in the last 12 bytes is tried.
func tailGrid(c *fw.Ctx) {
	maxG, maxR := 4, 320
	if c.Thorough() {
		maxG, maxR = 12, 1300
	}
	c.Bound("tail_grid", fmt.Sprintf("mini and flat3, snappy: row groups 1..%d x rows in the last row group 1..%d x cuts of 1..12 bytes", maxG, maxR))
	for _, tn := range []string{"mini", "flat3"} {
		if !sut.Has(tn) {
			continue
		}
		t := sut.Get(tn)
		for g := 1; g <= maxG; g++ {
			for r := 1; r <= maxR; r++ {
				if !c.Mine() {
					continue
				}
				if r&31 == 0 && c.Expired() {
					c.Capped("time budget hit in the tail grid")
					return
				}
				name := fmt.Sprintf("%s/snappy/grid-g%d-r%d", tn, g, r)
				var batches []int
				for i := 0; i < g-1; i++ {
					batches = append(batches, 2)
				}
				batches = append(batches, r)
				w := families.Workload{Name: name, Target: tn, Recs: families.MixedRecords(t, 2*(g-1)+r), Batches: batches, Page: 0, Codec: sut.Snappy}
				wlCache[name] = w
				file := fileOf(w)
				for cut := 1; cut <= 12 && cut < len(file); cut++ {
					n := len(file) - cut
					c.Eval()
					c.Distinct(fmt.Sprintf("%s|%d", name, n))
					tc := tcase{name, n}
					if msg := runPrefix(w, n); msg != "" {
						c.Violate(fmt.Sprintf("%s|tail-cut-%d|%s", tn, cut, classify(msg)), msg+fmt.Sprintf("\nworkload %s: %d row groups, %d rows in the last one, file cut by %d bytes", name, g, r, cut), "prefix", tc)
					}
				}
				delete(fileCache, name)
				delete(wlCache, name)
			}
		}
	}
}

func run(c *fw.Ctx) {
	thoroughTier = c.Thorough()
	var names []string
	for n := range workloads() {
		names = append(names, n)
	}
	sort.Strings(names)
	var bd []string
	for _, name := range names {
		bd = append(bd, fmt.Sprintf("%s (%d bytes)", name, len(fileOf(workloads()[name]))))
	}
	c.Bound("files", bd)
	defer tailGrid(c)
	for _, name := range names {
		w := workloads()[name]
		file := fileOf(w)
		for n := 0; n < len(file); n++ {
			if !c.Mine() {
				continue
			}
			if n&15 == 0 && c.Expired() {
				c.Capped("time budget hit")
				return
			}
			c.Eval()
			c.Distinct(fmt.Sprintf("%s|%d", name, n))
			tc := tcase{name, n}
			c.Guard("prefix", tc)
			if c.WantSample() && n%977 == 5 {
				c.Sample(tc)
			}
			if msg := runPrefix(w, n); msg != "" {
				c.Violate(fmt.Sprintf("%s|%s|%s", w.Target, region(w, n), classify(msg)), msg+"\nworkload "+name, "prefix", tc)
			}
		}
	}
}

func classify(msg string) string {
	out := []rune{}
	for _, ch := range msg {
		if ch == '(' || ch == '\n' || ch == ':' {
			break
		}
		if ch >= '0' && ch <= '9' {
			ch = '#'
		}
		out = append(out, ch)
	}
	return string(out)
}

func replay(c *fw.Ctx, kind string, data json.RawMessage) string {
	thoroughTier = true
	var tc tcase
	if err := json.Unmarshal(data, &tc); err != nil {
		return "bad case: " + err.Error()
	}
	w, ok := workloads()[tc.Workload]
	if !ok {
		var tn string
		var g, r int
		parts := strings.Split(tc.Workload, "/")
		if len(parts) == 3 {
			tn = parts[0]
			if _, err := fmt.Sscanf(parts[2], "grid-g%d-r%d", &g, &r); err == nil && sut.Has(tn) {
				t := sut.Get(tn)
				var batches []int
				for i := 0; i < g-1; i++ {
					batches = append(batches, 2)
				}
				batches = append(batches, r)
				w = families.Workload{Name: tc.Workload, Target: tn, Recs: families.MixedRecords(t, 2*(g-1)+r), Batches: batches, Page: 0, Codec: sut.Snappy}
				ok = true
			}
		}
		if !ok {
			return "unknown workload " + tc.Workload
		}
	}
	return runPrefix(w, tc.Len)
}

// Main runs the check.
func Main() {
	fw.Main(fw.Spec{
		ID:    "C11",
		Level: "fault_enumeration",
		Rule: "every strict prefix (every byte length 0..len-1) of every workload file (mini, person x 3 codecs x {1 page, multi-page, 2 row groups}; flat24 x 3 codecs x 3 row groups; mini files whose string data embeds <footer image of the file's first row group><length>XXXX with image lengths below and above 4 KiB (and 64 KiB in thorough), so that some prefixes end like a complete file except for the magic bytes) is opened and iterated with the documented loop. " +
			"Oracle: constructor error or Error() non-nil after iteration; no panic. distinct = (file, prefix length)",
		Assumptions: []string{
			"a prefix that is itself a complete valid file (an embedded footer image inside a value) would be legitimately accepted; the workload values contain none, and any accepted prefix is re-validated with the reference parser before it is called a violation",
			"workers run under an address-space limit because a garbage footer can make thrift allocate very large slices; a worker killed that way is reported as a violation for the prefix it was executing",
		},
		Run:            run,
		Replay:         replay,
		QuickBudget:    100 * time.Second,
		ThoroughBudget: 20 * time.Minute,
		MemLimitMB:     4096,
	})
}
