// Package c11: a truncated file is never accepted.  Every strict prefix of
// every workload file is opened and iterated.
package c11

import (
	"bytes"
	"encoding/json"
	"fmt"
	"sort"
	"strings"
	"time"

	"verif/mc/drive"
	"verif/mc/families"
	"verif/mc/fw"
	"verif/mc/oracle"
	"verif/mc/refpq"
	"verif/mc/sut"
)

type tcase struct {
	Workload string `json:"workload"`
	Len      int    `json:"prefix_len"`
}

var thoroughTier bool
var wlCache map[string]families.Workload
var fileCache = map[string][]byte{}

func workloads() map[string]families.Workload {
	if wlCache == nil {
		wlCache = map[string]families.Workload{}
		for _, w := range families.Workloads([]string{"mini", "person"}, families.Codecs3()) {
			wlCache[w.Name] = w
		}
		if thoroughTier {
			for _, tn := range []string{"mini", "person"} {
				tt := sut.Get(tn)
				for _, cd := range families.Codecs3() {
					w := families.Workload{Name: fmt.Sprintf("%s/%s/big", tn, cd), Target: tn, Recs: families.MixedRecords(tt, 150), Batches: []int{70, 50, 30}, Page: 16, Codec: cd}
					wlCache[w.Name] = w
				}
			}
		}
		// files without any row group (only magic + footer + magic) and files
		// with a single record
		for _, tn := range []string{"mini", "person"} {
			tt := sut.Get(tn)
			for _, cd := range families.Codecs3() {
				wlCache[fmt.Sprintf("%s/%s/empty", tn, cd)] = families.Workload{Name: fmt.Sprintf("%s/%s/empty", tn, cd), Target: tn, Recs: nil, Batches: nil, Page: 0, Codec: cd}
				wlCache[fmt.Sprintf("%s/%s/one", tn, cd)] = families.Workload{Name: fmt.Sprintf("%s/%s/one", tn, cd), Target: tn, Recs: families.MixedRecords(tt, 1), Batches: []int{1}, Page: 0, Codec: cd}
			}
		}
		// records still pending at Close (never written as a row group): more
		// than one page of them, after a written batch and on their own.  The
		// fileOf convention: records beyond the batches are added, not written
		for _, cd := range families.Codecs3() {
			tt := sut.Get("mini")
			wlCache[fmt.Sprintf("mini/%s/pending", cd)] = families.Workload{Name: fmt.Sprintf("mini/%s/pending", cd), Target: "mini", Recs: families.MixedRecords(tt, 7), Batches: []int{2}, Page: 2, Codec: cd}
			wlCache[fmt.Sprintf("mini/%s/pendingonly", cd)] = families.Workload{Name: fmt.Sprintf("mini/%s/pendingonly", cd), Target: "mini", Recs: families.MixedRecords(tt, 5), Batches: nil, Page: 2, Codec: cd}
		}
		t := sut.Get("flat24")
		for _, cd := range families.Codecs3() {
			w := families.Workload{Name: fmt.Sprintf("flat24/%s/3rg", cd), Target: "flat24", Recs: families.MixedRecords(t, 7), Batches: []int{3, 2, 2}, Page: 2, Codec: cd}
			wlCache[w.Name] = w
		}
		for _, w := range embedWorkloads() {
			wlCache[w.Name] = w
		}
	}
	return wlCache
}

// embedWorkloads: files whose data embeds the image of a footer.  The first
// row group is that of a smaller file F1; a string value of the second row
// group is <F1's footer, padded with a key/value entry to a chosen length>
// <its length> "XXXX".  Written uncompressed, the value (and the copies in the
// page statistics) appears verbatim, so the prefix that ends right after a
// copy ends like a complete file in everything but the magic bytes: a reader
// that locates the footer from the length alone - for some range of footer
// sizes - accepts it.  Lengths straddle the sizes at which a reader might
// switch strategy (one 4 KiB / 64 KiB block).
func embedWorkloads() []families.Workload {
	t := sut.Get("mini")
	tags := -1
	for i, ch := range t.Schema().Children {
		if ch.Name == "tags" {
			tags = i
		}
	}
	first := families.MixedRecords(t, 3)
	f1 := fileOf(families.Workload{Name: "mini/uncompressed/embed-f1", Target: "mini", Recs: first, Batches: []int{3}, Page: 0, Codec: sut.Uncompressed})
	pf, err := refpq.ParseFile(f1, refpq.ParseOptions{})
	if err != nil || tags < 0 {
		panic(fmt.Sprintf("embed: %v", err))
	}
	sizes := []int{0, 4000, 4200, 9000}
	if thoroughTier {
		sizes = append(sizes, 66000)
	}
	var out []families.Workload
	for _, pad := range sizes {
		ft, _, err := refpq.DecodeStruct(f1[pf.FooterStart : pf.FooterStart+pf.FooterLen])
		if err != nil {
			panic(err)
		}
		if pad > 0 {
			kv := (&refpq.TS{}).Set(1, refpq.VStr("pad")).Set(2, refpq.VBin(bytes.Repeat([]byte{'p'}, pad)))
			ft.Set(5, refpq.VList(refpq.TStruct, []refpq.TVal{refpq.VStruct(kv)}))
		}
		img := refpq.EncodeStruct(ft)
		v := append(append([]byte(nil), img...), byte(len(img)), byte(len(img)>>8), byte(len(img)>>16), byte(len(img)>>24))
		v = append(v, "XXXX"...)
		last := families.MixedRecords(t, 1)[0]
		last.Group = append([]refpq.Val(nil), last.Group...)
		last.Group[tags] = refpq.Val{List: []refpq.Val{{Leaf: string(v)}}}
		recs := append(append([]refpq.Val(nil), first...), last)
		name := fmt.Sprintf("mini/uncompressed/embed-footer-%d", len(img))
		out = append(out, families.Workload{Name: name, Target: "mini", Recs: recs, Batches: []int{3, 1}, Page: 0, Codec: sut.Uncompressed})
	}
	return out
}

func fileOf(w families.Workload) []byte {
	if f, ok := fileCache[w.Name]; ok {
		return f
	}
	t := sut.Get(w.Target)
	var bs [][]interface{}
	g := oracle.GoRecs(t, w.Recs)
	p := 0
	for _, n := range w.Batches {
		bs = append(bs, g[p:p+n])
		p += n
	}
	f, err, pm := drive.WriteFile(t, bs, g[p:], w.Page, w.Codec, nil)
	if err != nil || pm != "" {
		panic(fmt.Sprintf("workload %s cannot be written: %v %s", w.Name, err, pm))
	}
	fileCache[w.Name] = f
	return f
}

func runPrefix(w families.Workload, n int) string {
	t := sut.Get(w.Target)
	file := fileOf(w)
	if n >= len(file) {
		return ""
	}
	prefix := file[:n]
	rr := drive.ReadAll(t, bytes.NewReader(prefix), len(w.Recs)+8)
	if rr.Panic != "" {
		return "panic: " + rr.Panic
	}
	if rr.OpenErr != nil || rr.Err != nil {
		return ""
	}
	// accepted without any error.  No workload here stores the image of a
	// complete file inside a value, so a prefix that is a complete valid file
	// in its own right can only come from the writer itself (a second trailer
	// emitted before the real one): the cut file is accepted all the same,
	// which is what the property forbids.
	if pf, err := refpq.ParseFile(prefix, refpq.ParseOptions{}); err == nil && len(pf.Problems) == 0 {
		return fmt.Sprintf("a file cut to %d of %d bytes is accepted (%d rows delivered): the writer produced a file whose strict prefix is a complete valid file in its own right", n, len(file), len(rr.Recs))
	}
	return fmt.Sprintf("a file cut to %d of %d bytes is accepted: constructor ok, Error()==nil, %d rows delivered (Rows()=%d)", n, len(file), len(rr.Recs), rr.Rows)
}

func region(w families.Workload, n int) string {
	file := fileOf(w)
	pf, err := refpq.ParseFile(file, refpq.ParseOptions{})
	if err != nil {
		return "?"
	}
	switch {
	case n < 4:
		return "leading-magic"
	case n < pf.FooterStart:
		return "data"
	case n < len(file)-8:
		return "footer"
	case n < len(file)-4:
		return "footer-length"
	}
	return "trailing-magic"
}

// tailGrid: the reader locates the footer from the last 8 bytes only, so
// whether a cut inside the tail is noticed depends on what the bytes before
// it happen to be (the end of the footer, i.e. the last row group's row count
// and the footer's own length).  For a grid of (number of row groups, rows in
// the last row group) every cut in the last 12 bytes is tried.
func tailGrid(c *fw.Ctx) {
	maxG, maxR := 4, 320
	if c.Thorough() {
		maxG, maxR = 12, 1300
	}
	c.Bound("tail_grid", fmt.Sprintf("mini and flat3, snappy: row groups 1..%d x rows in the last row group 1..%d x cuts of 1..12 bytes", maxG, maxR))
	for _, tn := range []string{"mini", "flat3"} {
		if !sut.Has(tn) {
			continue
		}
		t := sut.Get(tn)
		for g := 1; g <= maxG; g++ {
			for r := 1; r <= maxR; r++ {
				if !c.Mine() {
					continue
				}
				if r&31 == 0 && c.Expired() {
					c.Capped("time budget hit in the tail grid")
					return
				}
				name := fmt.Sprintf("%s/snappy/grid-g%d-r%d", tn, g, r)
				var batches []int
				for i := 0; i < g-1; i++ {
					batches = append(batches, 2)
				}
				batches = append(batches, r)
				w := families.Workload{Name: name, Target: tn, Recs: families.MixedRecords(t, 2*(g-1)+r), Batches: batches, Page: 0, Codec: sut.Snappy}
				wlCache[name] = w
				file := fileOf(w)
				for cut := 1; cut <= 12 && cut < len(file); cut++ {
					n := len(file) - cut
					c.Eval()
					c.Distinct(fmt.Sprintf("%s|%d", name, n))
					tc := tcase{name, n}
					if msg := runPrefix(w, n); msg != "" {
						c.Violate(fmt.Sprintf("%s|tail-cut-%d|%s", tn, cut, classify(msg)), msg+fmt.Sprintf("\nworkload %s: %d row groups, %d rows in the last one, file cut by %d bytes", name, g, r, cut), "prefix", tc)
					}
				}
				delete(fileCache, name)
				delete(wlCache, name)
			}
		}
	}
}

// selfEmbed: files that hold an image of their OWN footer.  tailstr's last
// column chunk is one uncompressed page of three strings: a pad, then
// V = <the file's footer><its length>PAR1, then a tail.  The prefix that ends
// right after V ends like a complete file whose footer describes pages that
// are no longer all there: only the missing tail of the last page tells.  The
// pad length places the end of V at body start + m for the sizes m at which a
// reader might read a page in steps (4 KiB ... 1 MiB).  Cuts within 9 bytes of
// that point are tried.  A second variant writes the tail as a second row
// group, so the cut falls exactly between two row groups.
func selfEmbed(c *fw.Ctx) {
	if !sut.Has("tailstr") {
		return
	}
	t := sut.Get("tailstr")
	ms := []int{4096, 8192, 32768, 65536, 131072}
	if c.Thorough() {
		ms = append(ms, 16384, 262144, 1<<20, 2<<20)
	}
	c.Bound("self_embedded_footer_alignments", ms)
	for _, m := range ms {
		if !c.MineKey(fmt.Sprintf("selfembed|%d", m)) {
			continue
		}
		for _, split := range []bool{false, true} {
			if split && m != 4096 && m != 65536 {
				continue
			}
			file, at, err := buildSelfEmbed(t, m, split)
			if err != nil {
				c.Note("self-embedding file for alignment %d could not be built: %v", m, err)
				continue
			}
			name := fmt.Sprintf("tailstr/uncompressed/selfembed-%d", m)
			if split {
				name = fmt.Sprintf("tailstr/uncompressed/selfembed2rg-%d", m)
			}
			wlCache[name] = families.Workload{Name: name, Target: "tailstr"}
			fileCache[name] = file
			for n := at - 9; n <= at+9; n++ {
				c.Eval()
				c.Distinct(fmt.Sprintf("%s|%d", name, n))
				// the same prefix through a reader generated from a struct that lacks
				// the file's last column (whether such a reader accepts the complete
				// file at all is not C11's business; a prefix it must never accept)
				if sut.Has("idonly") {
					if msg := runPrefixOf(sut.Get("idonly"), file, n, 3); msg != "" {
						c.Violate(fmt.Sprintf("idonly reader|self-embedded footer, cut at body+%d%+d|%s", m, n-at, classify(msg)), msg+fmt.Sprintf("\nworkload %s read with the reader of struct{ ID int32 } (the file has one more column)", name), "selfembed-idonly", tcase{name, n})
					}
				}
				if msg := runPrefixOf(t, file, n, 3); msg != "" {
					c.Violate(fmt.Sprintf("tailstr|self-embedded footer, cut at body+%d%+d|%s", m, n-at, classify(msg)), msg+fmt.Sprintf("\nworkload %s: the last page holds <pad><own footer, length, PAR1><tail>; the copy ends %d bytes into the page body, the file is cut %d bytes from there", name, m, n-at), "selfembed", tcase{name, n})
				}
			}
			delete(fileCache, name)
			delete(wlCache, name)
		}
	}
}

// buildSelfEmbed returns the file and the offset right after the embedded copy.
func buildSelfEmbed(t *sut.Target, m int, split bool) ([]byte, int, error) {
	flen := 200
	for iter := 0; iter < 8; iter++ {
		vlen := flen + 8
		padLen := m - 8 - vlen
		if padLen < 1 {
			return nil, 0, fmt.Errorf("alignment %d too small for a footer of %d bytes", m, flen)
		}
		mk := func(v []byte) ([]byte, error) {
			recs := []refpq.Val{
				{Group: []refpq.Val{{Leaf: int32(1)}, {Leaf: strings.Repeat("\x00", padLen)}}},
				{Group: []refpq.Val{{Leaf: int32(2)}, {Leaf: string(v)}}},
				{Group: []refpq.Val{{Leaf: int32(3)}, {Leaf: strings.Repeat("\xff", 300)}}},
			}
			g := oracle.GoRecs(t, recs)
			batches := [][]interface{}{g}
			if split {
				// two row groups: the copy is the last value of the first one
				batches = [][]interface{}{g[:2], g[2:]}
			}
			f, err, pm := drive.WriteFile(t, batches, nil, 3, sut.Uncompressed, nil)
			if err != nil || pm != "" {
				return nil, fmt.Errorf("%v %s", err, pm)
			}
			return f, nil
		}
		ph := bytes.Repeat([]byte{0x20}, vlen)
		f1, err := mk(ph)
		if err != nil {
			return nil, 0, err
		}
		pf, err := refpq.ParseFile(f1, refpq.ParseOptions{})
		if err != nil {
			return nil, 0, err
		}
		if pf.FooterLen != flen {
			flen = pf.FooterLen
			continue
		}
		foot := f1[pf.FooterStart : pf.FooterStart+pf.FooterLen]
		v := append(append([]byte(nil), foot...), byte(flen), byte(flen>>8), byte(flen>>16), byte(flen>>24))
		v = append(v, "PAR1"...)
		f2, err := mk(v)
		if err != nil {
			return nil, 0, err
		}
		pf2, err := refpq.ParseFile(f2, refpq.ParseOptions{})
		if err != nil || len(pf2.Problems) > 0 {
			return nil, 0, fmt.Errorf("second pass invalid: %v", err)
		}
		if !bytes.Equal(f2[pf2.FooterStart:pf2.FooterStart+pf2.FooterLen], foot) {
			return nil, 0, fmt.Errorf("footer changed between passes")
		}
		chunks := pf2.RowGroups[0].Chunks
		pg := chunks[len(chunks)-1].Pages[0]
		at := pg.Offset + pg.HeaderLen + m
		if !bytes.Equal(f2[at-len(v):at], v) {
			return nil, 0, fmt.Errorf("copy not where expected")
		}
		return f2, at, nil
	}
	return nil, 0, fmt.Errorf("footer length did not settle")
}

// runPrefixOf is runPrefix for an explicit file.
func runPrefixOf(t *sut.Target, file []byte, n, nrecs int) string {
	prefix := file[:n]
	rr := drive.ReadAll(t, bytes.NewReader(prefix), nrecs+8)
	if rr.Panic != "" {
		return "panic: " + rr.Panic
	}
	if rr.OpenErr != nil || rr.Err != nil {
		return ""
	}
	if pf, err := refpq.ParseFile(prefix, refpq.ParseOptions{}); err == nil && len(pf.Problems) == 0 {
		return ""
	}
	return fmt.Sprintf("a file cut to %d of %d bytes is accepted: constructor ok, Error()==nil, %d rows delivered (Rows()=%d)", n, len(file), len(rr.Recs), rr.Rows)
}

func run(c *fw.Ctx) {
	thoroughTier = c.Thorough()
	var names []string
	for n := range workloads() {
		names = append(names, n)
	}
	sort.Strings(names)
	var bd []string
	for _, name := range names {
		bd = append(bd, fmt.Sprintf("%s (%d bytes)", name, len(fileOf(workloads()[name]))))
	}
	c.Bound("files", bd)
	defer tailGrid(c)
	defer selfEmbed(c)
	for _, name := range names {
		w := workloads()[name]
		file := fileOf(w)
		for n := 0; n < len(file); n++ {
			if !c.Mine() {
				continue
			}
			if n&15 == 0 && c.Expired() {
				c.Capped("time budget hit")
				return
			}
			c.Eval()
			c.Distinct(fmt.Sprintf("%s|%d", name, n))
			tc := tcase{name, n}
			c.Guard("prefix", tc)
			if c.WantSample() && n%977 == 5 {
				c.Sample(tc)
			}
			if msg := runPrefix(w, n); msg != "" {
				c.Violate(fmt.Sprintf("%s|%s|%s", w.Target, region(w, n), classify(msg)), msg+"\nworkload "+name, "prefix", tc)
			}
		}
	}
}

func classify(msg string) string {
	out := []rune{}
	for _, ch := range msg {
		if ch == '(' || ch == '\n' || ch == ':' {
			break
		}
		if ch >= '0' && ch <= '9' {
			ch = '#'
		}
		out = append(out, ch)
	}
	return string(out)
}

func replay(c *fw.Ctx, kind string, data json.RawMessage) string {
	thoroughTier = true
	var tc tcase
	if err := json.Unmarshal(data, &tc); err != nil {
		return "bad case: " + err.Error()
	}
	if strings.Contains(tc.Workload, "/selfembed") {
		var m int
		split := strings.Contains(tc.Workload, "/selfembed2rg-")
		fmt.Sscanf(tc.Workload[strings.LastIndex(tc.Workload, "-")+1:], "%d", &m)
		t := sut.Get("tailstr")
		file, _, err := buildSelfEmbed(t, m, split)
		if err != nil {
			return "harness: " + err.Error()
		}
		if kind == "selfembed-idonly" {
			return runPrefixOf(sut.Get("idonly"), file, tc.Len, 3)
		}
		return runPrefixOf(t, file, tc.Len, 3)
	}
	w, ok := workloads()[tc.Workload]
	if !ok {
		var tn string
		var g, r int
		parts := strings.Split(tc.Workload, "/")
		if len(parts) == 3 {
			tn = parts[0]
			if _, err := fmt.Sscanf(parts[2], "grid-g%d-r%d", &g, &r); err == nil && sut.Has(tn) {
				t := sut.Get(tn)
				var batches []int
				for i := 0; i < g-1; i++ {
					batches = append(batches, 2)
				}
				batches = append(batches, r)
				w = families.Workload{Name: tc.Workload, Target: tn, Recs: families.MixedRecords(t, 2*(g-1)+r), Batches: batches, Page: 0, Codec: sut.Snappy}
				ok = true
			}
		}
		if !ok {
			return "unknown workload " + tc.Workload
		}
	}
	return runPrefix(w, tc.Len)
}

// Main runs the check.
func Main() {
	fw.Main(fw.Spec{
		ID:    "C11",
		Level: "fault_enumeration",
		Rule: "every strict prefix (every byte length 0..len-1) of every workload file (mini, person x 3 codecs x {1 page, multi-page, 2 row groups}; flat24 x 3 codecs x 3 row groups; mini files whose string data embeds <footer image of the file's first row group><length>XXXX with image lengths below and above 4 KiB (and 64 KiB in thorough), so that some prefixes end like a complete file except for the magic bytes; tailstr files whose last page holds a copy of the file's OWN footer + length + magic ending 4 KiB ... 128 KiB (thorough: ... 2 MiB) into the page body, cut within 9 bytes of that point) is opened and iterated with the documented loop. " +
			"Oracle: constructor error or Error() non-nil after iteration; no panic. distinct = (file, prefix length)",
		Assumptions: []string{
			"a prefix that is itself a complete valid file (an embedded footer image inside a value) would be legitimately accepted; the workload values contain none, and any accepted prefix is re-validated with the reference parser before it is called a violation",
			"workers run under an address-space limit because a garbage footer can make thrift allocate very large slices; a worker killed that way is reported as a violation for the prefix it was executing",
		},
		Run:            run,
		Replay:         replay,
		QuickBudget:    100 * time.Second,
		ThoroughBudget: 20 * time.Minute,
		MemLimitMB:     4096,
	})
}
