// Package c11: a truncated file is never accepted.  Every strict prefix of
// every workload file is opened and iterated.
package c11

import (
	"bytes"
	"encoding/json"
	"fmt"
	"sort"
	"time"

	"verif/mc/drive"
	"verif/mc/families"
	"verif/mc/fw"
	"verif/mc/oracle"
	"verif/mc/refpq"
	"verif/mc/sut"
)

type tcase struct {
	Workload string `json:"workload"`
	Len      int    `json:"prefix_len"`
}

var thoroughTier bool
var wlCache map[string]families.Workload
var fileCache = map[string][]byte{}

func workloads() map[string]families.Workload {
	if wlCache == nil {
		wlCache = map[string]families.Workload{}
		for _, w := range families.Workloads([]string{"mini", "person"}, families.Codecs3()) {
			wlCache[w.Name] = w
		}
		if thoroughTier {
			for _, tn := range []string{"mini", "person"} {
				tt := sut.Get(tn)
				for _, cd := range families.Codecs3() {
					w := families.Workload{Name: fmt.Sprintf("%s/%s/big", tn, cd), Target: tn, Recs: families.MixedRecords(tt, 150), Batches: []int{70, 50, 30}, Page: 16, Codec: cd}
					wlCache[w.Name] = w
				}
			}
		}
		t := sut.Get("flat24")
		for _, cd := range families.Codecs3() {
			w := families.Workload{Name: fmt.Sprintf("flat24/%s/3rg", cd), Target: "flat24", Recs: families.MixedRecords(t, 7), Batches: []int{3, 2, 2}, Page: 2, Codec: cd}
			wlCache[w.Name] = w
		}
	}
	return wlCache
}

func fileOf(w families.Workload) []byte {
	if f, ok := fileCache[w.Name]; ok {
		return f
	}
	t := sut.Get(w.Target)
	var bs [][]interface{}
	g := oracle.GoRecs(t, w.Recs)
	p := 0
	for _, n := range w.Batches {
		bs = append(bs, g[p:p+n])
		p += n
	}
	f, err, pm := drive.WriteFile(t, bs, nil, w.Page, w.Codec, nil)
	if err != nil || pm != "" {
		panic(fmt.Sprintf("workload %s cannot be written: %v %s", w.Name, err, pm))
	}
	fileCache[w.Name] = f
	return f
}

func runPrefix(w families.Workload, n int) string {
	t := sut.Get(w.Target)
	file := fileOf(w)
	if n >= len(file) {
		return ""
	}
	prefix := file[:n]
	rr := drive.ReadAll(t, bytes.NewReader(prefix), len(w.Recs)+8)
	if rr.Panic != "" {
		return "panic: " + rr.Panic
	}
	if rr.OpenErr != nil || rr.Err != nil {
		return ""
	}
	// accepted without any error: only legitimate if the prefix happens to be
	// a complete valid file itself (excluded by construction; verified here)
	if pf, err := refpq.ParseFile(prefix, refpq.ParseOptions{}); err == nil && len(pf.Problems) == 0 {
		return ""
	}
	return fmt.Sprintf("a file cut to %d of %d bytes is accepted: constructor ok, Error()==nil, %d rows delivered (Rows()=%d)", n, len(file), len(rr.Recs), rr.Rows)
}

func region(w families.Workload, n int) string {
	file := fileOf(w)
	pf, err := refpq.ParseFile(file, refpq.ParseOptions{})
	if err != nil {
		return "?"
	}
	switch {
	case n < 4:
		return "leading-magic"
	case n < pf.FooterStart:
		return "data"
	case n < len(file)-8:
		return "footer"
	case n < len(file)-4:
		return "footer-length"
	}
	return "trailing-magic"
}

func run(c *fw.Ctx) {
	thoroughTier = c.Thorough()
	var names []string
	for n := range workloads() {
		names = append(names, n)
	}
	sort.Strings(names)
	var bd []string
	for _, name := range names {
		bd = append(bd, fmt.Sprintf("%s (%d bytes)", name, len(fileOf(workloads()[name]))))
	}
	c.Bound("files", bd)
	for _, name := range names {
		w := workloads()[name]
		file := fileOf(w)
		for n := 0; n < len(file); n++ {
			if !c.Mine() {
				continue
			}
			if n&15 == 0 && c.Expired() {
				c.Capped("time budget hit")
				return
			}
			c.Eval()
			c.Distinct(fmt.Sprintf("%s|%d", name, n))
			tc := tcase{name, n}
			c.Guard("prefix", tc)
			if c.WantSample() && n%977 == 5 {
				c.Sample(tc)
			}
			if msg := runPrefix(w, n); msg != "" {
				c.Violate(fmt.Sprintf("%s|%s|%s", w.Target, region(w, n), classify(msg)), msg+"\nworkload "+name, "prefix", tc)
			}
		}
	}
}

func classify(msg string) string {
	out := []rune{}
	for _, ch := range msg {
		if ch == '(' || ch == '\n' || ch == ':' {
			break
		}
		if ch >= '0' && ch <= '9' {
			ch = '#'
		}
		out = append(out, ch)
	}
	return string(out)
}

func replay(c *fw.Ctx, kind string, data json.RawMessage) string {
	thoroughTier = true
	var tc tcase
	if err := json.Unmarshal(data, &tc); err != nil {
		return "bad case: " + err.Error()
	}
	w, ok := workloads()[tc.Workload]
	if !ok {
		return "unknown workload " + tc.Workload
	}
	return runPrefix(w, tc.Len)
}

// Main runs the check.
func Main() {
	fw.Main(fw.Spec{
		ID:    "C11",
		Level: "fault_enumeration",
		Rule: "every strict prefix (every byte length 0..len-1) of every workload file (mini, person x 3 codecs x {1 page, multi-page, 2 row groups}; flat24 x 3 codecs x 3 row groups) is opened and iterated with the documented loop. " +
			"Oracle: constructor error or Error() non-nil after iteration; no panic. distinct = (file, prefix length)",
		Assumptions: []string{
			"a prefix that is itself a complete valid file (an embedded footer image inside a value) would be legitimately accepted; the workload values contain none, and any accepted prefix is re-validated with the reference parser before it is called a violation",
			"workers run under an address-space limit because a garbage footer can make thrift allocate very large slices; a worker killed that way is reported as a violation for the prefix it was executing",
		},
		Run:            run,
		Replay:         replay,
		QuickBudget:    100 * time.Second,
		ThoroughBudget: 20 * time.Minute,
		MemLimitMB:     4096,
	})
}
