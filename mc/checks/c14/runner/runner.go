// Package runner is linked into the C14 batch binaries: it compares every
// decorated struct definition with its base definition.
package runner

import (
	"bytes"
	"fmt"
	"reflect"
	"strings"
	"unsafe"

	"verif/mc/drive"
	"verif/mc/fw"
	"verif/mc/gen"
	"verif/mc/oracle"
	"verif/mc/prog"
	"verif/mc/progrun"
	"verif/mc/refpq"
	"verif/mc/sut"
)

// Main is the batch entry point.
func Main() {
	progrun.Modes["c14"] = exercise
	progrun.Main()
}

func inputs(t *sut.Target, f func(recs []refpq.Val, batches []int, page int, codec sut.Codec)) {
	root := t.Schema()
	s := 3
	if len(root.Leaves()) > 10 {
		s = 2
	}
	all := gen.Structures(root, s, 2)
	if len(all) > 120 {
		all = all[:120]
	}
	for i, st := range all {
		fl := &gen.Filler{}
		r := gen.Fill(root, st, fl)
		f([]refpq.Val{r}, []int{1}, 0, sut.Snappy)
		if i%4 == 0 {
			f([]refpq.Val{r}, []int{1}, 1, sut.Uncompressed)
		}
		if i%16 == 0 {
			f([]refpq.Val{r}, []int{1}, 0, sut.Gzip)
		}
	}
	m := len(all)
	if m > 8 {
		m = 8
	}
	for i := 0; i < m; i++ {
		for j := 0; j < m; j++ {
			fl := &gen.Filler{}
			recs := []refpq.Val{gen.Fill(root, all[i], fl), gen.Fill(root, all[len(all)-1-j], fl)}
			f(recs, []int{2}, 1, sut.Snappy)
			f(recs, []int{1, 1}, 0, sut.Snappy)
		}
	}
}

// fillGarbage sets every excluded field (not part of the schema) of a
// decorated record to a non-zero value.
func fillGarbage(v reflect.Value, schemaFields map[string]bool, path string) {
	t := v.Type()
	for i := 0; i < t.NumField(); i++ {
		f := t.Field(i)
		fv := v.Field(i)
		p := path + "." + f.Name
		if f.Anonymous && f.Type.Kind() == reflect.Struct {
			fillGarbage(fv, schemaFields, path) // embedded: inlined
			continue
		}
		excluded := f.PkgPath != "" || f.Tag.Get("parquet") == "-"
		if excluded {
			setNonZero(writable(fv))
			continue
		}
		_ = p
		// descend into groups
		ft := f.Type
		switch {
		case ft.Kind() == reflect.Struct:
			fillGarbage(fv, schemaFields, p)
		case ft.Kind() == reflect.Ptr && ft.Elem().Kind() == reflect.Struct && !fv.IsNil():
			fillGarbage(fv.Elem(), schemaFields, p)
		case ft.Kind() == reflect.Slice && ft.Elem().Kind() == reflect.Struct:
			for k := 0; k < fv.Len(); k++ {
				fillGarbage(fv.Index(k), schemaFields, p)
			}
		}
	}
}

func writable(v reflect.Value) reflect.Value {
	if v.CanSet() {
		return v
	}
	return reflect.NewAt(v.Type(), unsafe.Pointer(v.UnsafeAddr())).Elem()
}

func setNonZero(v reflect.Value) {
	switch v.Kind() {
	case reflect.Int, reflect.Int8, reflect.Int16, reflect.Int32, reflect.Int64:
		v.SetInt(77)
	case reflect.Uint, reflect.Uint8, reflect.Uint16, reflect.Uint32, reflect.Uint64:
		v.SetUint(77)
	case reflect.Float32, reflect.Float64:
		v.SetFloat(7.7)
	case reflect.Bool:
		v.SetBool(true)
	case reflect.String:
		v.SetString("excluded")
	case reflect.Ptr:
		p := reflect.New(v.Type().Elem())
		setNonZero(p.Elem())
		v.Set(p)
	case reflect.Slice:
		s := reflect.MakeSlice(v.Type(), 2, 2)
		setNonZero(s.Index(0))
		setNonZero(s.Index(1))
		v.Set(s)
	case reflect.Array:
		for i := 0; i < v.Len(); i++ {
			setNonZero(v.Index(i))
		}
	case reflect.Map:
		m := reflect.MakeMap(v.Type())
		k := reflect.New(v.Type().Key()).Elem()
		e := reflect.New(v.Type().Elem()).Elem()
		setNonZero(k)
		setNonZero(e)
		m.SetMapIndex(k, e)
		v.Set(m)
	case reflect.Chan:
		v.Set(reflect.MakeChan(v.Type(), 1))
	case reflect.Func:
		ft := v.Type()
		v.Set(reflect.MakeFunc(ft, func([]reflect.Value) []reflect.Value {
			out := make([]reflect.Value, ft.NumOut())
			for i := range out {
				out[i] = reflect.Zero(ft.Out(i))
			}
			return out
		}))
	case reflect.Interface:
		if v.Type().NumMethod() == 0 {
			v.Set(reflect.ValueOf(77))
		}
	case reflect.Struct:
		for i := 0; i < v.NumField(); i++ {
			setNonZero(writable(v.Field(i)))
		}
	}
}

// excludedNonZero reports the first excluded field of a scanned record that is not zero.
func excludedNonZero(v reflect.Value, path string) string {
	t := v.Type()
	for i := 0; i < t.NumField(); i++ {
		f := t.Field(i)
		fv := v.Field(i)
		p := path + "." + f.Name
		if f.Anonymous && f.Type.Kind() == reflect.Struct {
			if m := excludedNonZero(fv, path); m != "" {
				return m
			}
			continue
		}
		if f.PkgPath != "" || f.Tag.Get("parquet") == "-" {
			if !fv.IsZero() {
				return strings.TrimPrefix(p, ".")
			}
			continue
		}
		ft := f.Type
		switch {
		case ft.Kind() == reflect.Struct:
			if m := excludedNonZero(fv, p); m != "" {
				return m
			}
		case ft.Kind() == reflect.Ptr && ft.Elem().Kind() == reflect.Struct && !fv.IsNil():
			if m := excludedNonZero(fv.Elem(), p); m != "" {
				return m
			}
		case ft.Kind() == reflect.Slice && ft.Elem().Kind() == reflect.Struct:
			for k := 0; k < fv.Len(); k++ {
				if m := excludedNonZero(fv.Index(k), p); m != "" {
					return m
				}
			}
		}
	}
	return ""
}

func exercise(t *sut.Target) prog.Result {
	res := prog.Result{Target: t.Name, Ran: true}
	seen := map[string]bool{}
	add := func(class, code, msg string) {
		k := class + "/" + code
		if seen[k] {
			return
		}
		seen[k] = true
		if len(msg) > 600 {
			msg = msg[:600] + "..."
		}
		res.Failures = append(res.Failures, prog.Failure{Class: class, Code: code, Msg: msg})
	}
	parts := strings.SplitN(t.Name, "|", 3)
	if parts[0] == "B" {
		// the base definition itself must satisfy the C05 oracles on these inputs
		inputs(t, func(recs []refpq.Val, batches []int, page int, codec sut.Codec) {
			res.Evals++
			_, fails := oracle.Run(t, recs, batches, page, codec, oracle.RoundTrip|oracle.Valid|oracle.Striping)
			for _, f := range fails {
				add("base-"+f.Class, f.Code, f.Msg)
			}
		})
		return res
	}
	baseName := "B|" + parts[1]
	if !sut.Has(baseName) {
		add("harness", "no-base", "base target "+baseName+" is not in this binary")
		return res
	}
	base := sut.Get(baseName)
	if d := refpq.SameSchema(base.Schema(), t.Schema()); d != "" {
		add("harness", "schema", "decorated struct's expected schema differs from the base: "+d)
		return res
	}
	inputs(base, func(recs []refpq.Val, batches []int, page int, codec sut.Codec) {
		res.Evals++
		// base file
		var bb [][]interface{}
		g := oracle.GoRecs(base, recs)
		p := 0
		for _, n := range batches {
			bb = append(bb, g[p:p+n])
			p += n
		}
		bfile, err, pm := drive.WriteFile(base, bb, nil, page, codec, nil)
		if err != nil || pm != "" {
			add("base-write", "error", fmt.Sprintf("%v %s", err, pm))
			return
		}
		// decorated file: the same values, excluded fields set to garbage
		var db [][]interface{}
		dg := make([]interface{}, len(recs))
		for i, r := range recs {
			pv := reflect.New(t.Type)
			refpq.ToGo(t.Schema(), r, pv.Elem())
			fillGarbage(pv.Elem(), nil, "")
			dg[i] = pv.Elem().Interface()
		}
		p = 0
		for _, n := range batches {
			db = append(db, dg[p:p+n])
			p += n
		}
		dfile, err, pm := drive.WriteFile(t, db, nil, page, codec, nil)
		if pm != "" {
			add("panic", "write", pm)
			return
		}
		if err != nil {
			add("write-error", "", err.Error())
			return
		}
		if !bytes.Equal(bfile, dfile) {
			msg := fmt.Sprintf("files differ (%d vs %d bytes)", len(bfile), len(dfile))
			if pf, perr := refpq.ParseFile(dfile, refpq.ParseOptions{}); perr == nil {
				if d := refpq.SameSchema(base.Schema(), pf.Schema); d != "" {
					msg += "; footer schema of the decorated file: " + d
				}
			}
			add("bytes-differ", "", msg+" | input: "+fmt.Sprint(oracle.Describe(base, recs, batches, page, codec)["records"]))
			return
		}
		// reading into fresh decorated structs leaves excluded fields zero and returns the values
		var rd sut.Reader
		pm = fw.Protect(func() {
			rd, err = t.NewReader(bytes.NewReader(dfile))
			if err != nil {
				return
			}
			i := 0
			for rd.Next() {
				pv := reflect.New(t.Type)
				rd.ScanInto(pv.Interface())
				if m := excludedNonZero(pv.Elem(), ""); m != "" {
					add("excluded-not-zero", "", "after Scan into a fresh struct the excluded field "+m+" is not zero")
				}
				if i < len(recs) {
					got := refpq.FromGo(t.Schema(), pv.Elem())
					if d := refpq.EqualVal(t.Schema(), recs[i], got); d != "" {
						add("roundtrip", "records", fmt.Sprintf("record %d: %s", i, d))
					}
				}
				i++
				if i > len(recs)+4 {
					break
				}
			}
			if i != len(recs) {
				add("roundtrip", "count", fmt.Sprintf("%d records read, %d written", i, len(recs)))
			}
			if rd.Error() != nil {
				add("roundtrip", "error", rd.Error().Error())
			}
		})
		if pm != "" {
			add("panic", "read", pm)
		}
		if err != nil {
			add("roundtrip", "open-error", err.Error())
		}
	})
	return res
}
