// Package c14: excluded fields are inert and embedding equals inlining.
// Program enumeration: every insertion of an excluded field (any position,
// any struct of the shape, many Go types) and every replacement of a run of
// sibling fields by an embedded struct, compared byte for byte with the base
// definition.
package c14

import (
	"encoding/json"
	"fmt"
	"os"
	"path/filepath"
	"strings"
	"time"

	"verif/mc/fw"
	"verif/mc/prog"
)

type fdef struct {
	Name, Type, Tag string
	Embedded        bool
}

type sdef struct {
	Name   string
	Fields []fdef
}

type base struct {
	ID      string
	Root    string
	Structs []sdef
}

func f(name, typ, tag string) fdef { return fdef{Name: name, Type: typ, Tag: tag} }

var bases = []base{
	{ID: "mini", Root: "Mini", Structs: []sdef{
		{"Mini", []fdef{f("ID", "int32", "id"), f("Flag", "*bool", "flag"), f("Tags", "[]string", "tags"), f("Opt", "*int64", "opt")}},
	}},
	{ID: "untagged", Root: "U", Structs: []sdef{
		{"U", []fdef{f("A", "int32", ""), f("B", "int32", ""), f("C", "*string", ""), f("D", "[]int64", ""), f("E", "[]int64", "")}},
	}},
	{ID: "nestopt", Root: "T", Structs: []sdef{
		{"T", []fdef{f("F0", "int32", ""), f("F1", "*T1", "")}},
		{"T1", []fdef{f("G0", "int32", ""), f("G1", "*int32", "")}},
	}},
	{ID: "nestrep", Root: "T", Structs: []sdef{
		{"T", []fdef{f("F0", "[]T1", ""), f("F1", "string", "")}},
		{"T1", []fdef{f("G0", "int32", ""), f("G1", "int32", "")}},
	}},
	{ID: "nestreq", Root: "T", Structs: []sdef{
		{"T", []fdef{f("F0", "T1", ""), f("F1", "[]int32", "")}},
		{"T1", []fdef{f("G0", "int32", ""), f("G1", "*int32", "")}},
	}},
	{ID: "audit", Root: "T", Structs: []sdef{
		{"T", []fdef{f("ID", "int64", "id"), f("Created", "int64", "created"), f("Updated", "*int64", "updated"), f("Note", "*string", "note"), f("First", "T1", "first"), f("Items", "[]T1", "items")}},
		{"T1", []fdef{f("SKU", "string", "sku"), f("Created", "int64", "created"), f("Updated", "*int64", "updated"), f("Qty", "int32", "qty")}},
	}},
	{ID: "document", Root: "Document", Structs: []sdef{
		{"Document", []fdef{f("DocID", "int64", "docid"), f("Links", "*Link", "link"), f("Names", "[]Name", "names")}},
		{"Link", []fdef{f("Backward", "[]int64", "backward"), f("Forward", "[]int64", "forward")}},
		{"Name", []fdef{f("Languages", "[]Language", "languages"), f("URL", "*string", "url")}},
		{"Language", []fdef{f("Code", "string", "code"), f("Country", "*string", "country")}},
	}},
	{ID: "personflat", Root: "Person", Structs: []sdef{
		{"Person", []fdef{f("ID", "int32", "id"), f("Name", "string", "name"), f("Age", "*int32", "age"), f("Happiness", "int64", "happiness"),
			f("Code", "*string", "code"), f("Funkiness", "float32", "funkiness"), f("Keen", "*bool", "keen"), f("Birthday", "uint32", "birthday"),
			f("Hungry", "bool", "hungry"), f("Hobby", "*Hobby", "hobby"), f("Friends", "[]Being", "friends")}},
		{"Being", []fdef{f("ID", "int32", "id"), f("Name", "string", "name"), f("Age", "*int32", "age")}},
		{"Hobby", []fdef{f("Name", "string", "name"), f("Difficulty", "*int32", "difficulty"), f("Skills", "[]Skill", "skills")}},
		{"Skill", []fdef{f("Name", "string", "name"), f("Difficulty", "string", "difficulty")}},
	}},
}

func render(pkg string, structs []sdef, extra string) string {
	var sb strings.Builder
	sb.WriteString("package " + pkg + "\n\n")
	for _, s := range structs {
		fmt.Fprintf(&sb, "type %s struct {\n", s.Name)
		for _, fd := range s.Fields {
			if fd.Embedded {
				fmt.Fprintf(&sb, "\t%s\n", fd.Type)
				continue
			}
			tag := ""
			if strings.HasPrefix(fd.Tag, "`") {
				tag = " " + fd.Tag // a complete raw struct tag
			} else if fd.Tag != "" {
				tag = " `parquet:\"" + fd.Tag + "\"`"
			}
			fmt.Fprintf(&sb, "\t%s %s%s\n", fd.Name, fd.Type, tag)
		}
		sb.WriteString("}\n\n")
	}
	sb.WriteString(extra)
	return sb.String()
}

type decor struct {
	Desc    string
	Structs []sdef
	Extra   string
}

func cloneStructs(in []sdef) []sdef {
	out := make([]sdef, len(in))
	for i, s := range in {
		out[i] = sdef{s.Name, append([]fdef(nil), s.Fields...)}
	}
	return out
}

var allNames = []string{"hidden", "x", "_x", "émile"}
var allTypes = []string{"int32", "*string", "[]int64", "int", "[4]byte", "map[string]int", "chan int", "func()", "func(X int32) error", "interface{}", "struct{ A int32 }", "Other", "*Other"}

const otherDecl = "type Other struct {\n\tA int32\n}\n"

func decorations(b base, thorough bool) []decor {
	names := []string{"hidden"}
	types := []string{"int32", "*string", "map[string]int", "func()", "Other", "struct{ A int32 }", "func(X int32) error"}
	if thorough {
		names, types = allNames, allTypes
	}
	var out []decor
	for si, s := range b.Structs {
		for pos := 0; pos <= len(s.Fields); pos++ {
			ins := func(fd fdef, desc string, extra string) {
				st := cloneStructs(b.Structs)
				fs := append([]fdef(nil), st[si].Fields[:pos]...)
				fs = append(fs, fd)
				fs = append(fs, st[si].Fields[pos:]...)
				st[si].Fields = fs
				out = append(out, decor{Desc: desc, Structs: st, Extra: extra})
			}
			if !thorough {
				// the other spellings of "unexported", with one type
				for _, n := range allNames[1:] {
					ins(fdef{Name: n, Type: "int32"}, fmt.Sprintf("unexported:%s:%s@%s.%d", n, "int32", s.Name, pos), "")
				}
			}
			for _, n := range names {
				for _, ty := range types {
					extra := ""
					if strings.Contains(ty, "Other") {
						extra = otherDecl
					}
					ins(fdef{Name: n, Type: ty}, fmt.Sprintf("unexported:%s:%s@%s.%d", n, ty, s.Name, pos), extra)
				}
			}
			// exported fields of unsupported types are ignored by default
			for _, ty := range []string{"map[string]int", "interface{}", "chan int"} {
				if !thorough && pos != 0 && pos != len(s.Fields) {
					continue
				}
				ins(fdef{Name: "Unsup", Type: ty}, fmt.Sprintf("ignored:%s@%s.%d", ty, s.Name, pos), "")
			}
			dashTypes := types
			for _, ty := range dashTypes {
				extra := ""
				if strings.Contains(ty, "Other") {
					extra = otherDecl
				}
				ins(fdef{Name: "Excl", Type: ty, Tag: "-"}, fmt.Sprintf("dash:%s@%s.%d", ty, s.Name, pos), extra)
			}
		}
		// embedding: every contiguous run of >= 1 sibling fields
		for i := 0; i < len(s.Fields); i++ {
			for j := i + 1; j <= len(s.Fields); j++ {
				if !thorough && len(s.Fields) > 5 && j-i > 2 && !(i == 0 && j == len(s.Fields)) {
					continue // quick: short runs and the whole struct only, for wide structs
				}
				st := cloneStructs(b.Structs)
				run := append([]fdef(nil), st[si].Fields[i:j]...)
				fs := append([]fdef(nil), st[si].Fields[:i]...)
				fs = append(fs, fdef{Type: "Emb", Embedded: true})
				fs = append(fs, st[si].Fields[j:]...)
				st[si].Fields = fs
				st1 := append(cloneStructs(st), sdef{"Emb", run})
				out = append(out, decor{Desc: fmt.Sprintf("embed@%s.%d-%d", s.Name, i, j), Structs: st1})
				// pairs of decorations: an excluded field right next to the
				// embedded struct (before / after it) and, in thorough, as the
				// first / last field inside it
				for _, ex := range []fdef{{Name: "Excl", Type: "int32", Tag: "-"}, {Name: "hidden", Type: "int32"}, {Name: "Unsup", Type: "map[string]int"}} {
					kind := "dash"
					if ex.Tag == "" {
						kind = "unexported"
					}
					if ex.Name == "Unsup" {
						// an exported field of a type parquetgen does not support is
						// ignored (-ignore, the default): inside an embedded struct it
						// must not take the struct's columns with it
						kind = "ignored"
					}
					for _, where := range []string{"before", "after", "first", "last"} {
						if !thorough && (where == "first" || where == "last") && kind != "ignored" {
							continue
						}
						if !thorough && kind == "ignored" && (where == "before" || where == "after") {
							continue
						}
						sp := cloneStructs(st)
						emb := sdef{"Emb", append([]fdef(nil), run...)}
						host := append([]fdef(nil), sp[si].Fields...)
						switch where {
						case "before":
							host = append(append(append([]fdef(nil), host[:i]...), ex), host[i:]...)
						case "after":
							host = append(append(append([]fdef(nil), host[:i+1]...), ex), host[i+1:]...)
						case "first":
							emb.Fields = append([]fdef{ex}, emb.Fields...)
						case "last":
							emb.Fields = append(emb.Fields, ex)
						}
						sp[si].Fields = host
						out = append(out, decor{Desc: fmt.Sprintf("embedexcl:%s:%s@%s.%d-%d", kind, where, s.Name, i, j), Structs: append(sp, emb)})
					}
				}
				if thorough || j-i == 1 {
					// two deep: Emb embeds Emb2 which holds the run
					st2 := append(cloneStructs(st), sdef{"Emb", []fdef{{Type: "Emb2", Embedded: true}}}, sdef{"Emb2", run})
					out = append(out, decor{Desc: fmt.Sprintf("embed2@%s.%d-%d", s.Name, i, j), Structs: st2})
				}
				if thorough && j-i >= 2 {
					// split run: first field directly in Emb, the rest in Emb2 embedded in Emb
					st3 := append(cloneStructs(st), sdef{"Emb", []fdef{run[0], {Type: "Emb2", Embedded: true}}}, sdef{"Emb2", run[1:]})
					out = append(out, decor{Desc: fmt.Sprintf("embedsplit@%s.%d-%d", s.Name, i, j), Structs: st3})
				}
			}
		}
	}
	// an embedded struct that is itself excluded (dash tag, or an unexported
	// type): none of its fields may be promoted
	for si, s := range b.Structs {
		for pos := 0; pos <= len(s.Fields); pos++ {
			if !thorough && pos != 0 && pos != len(s.Fields) {
				continue
			}
			for vi, emb := range []fdef{
				{Type: "ExclEmb `parquet:\"-\"`", Embedded: true},
				{Type: "exclEmb", Embedded: true},
			} {
				st := cloneStructs(b.Structs)
				fs := append([]fdef(nil), st[si].Fields[:pos]...)
				fs = append(fs, emb)
				fs = append(fs, st[si].Fields[pos:]...)
				st[si].Fields = fs
				tn := []string{"ExclEmb", "exclEmb"}[vi]
				st = append(st, sdef{tn, []fdef{f("Zed", "int32", ""), f("Why", "*string", "")}})
				out = append(out, decor{Desc: fmt.Sprintf("excludedembedded:%s@%s.%d", tn, s.Name, pos), Structs: st})
			}
		}
	}
	// other struct tags next to the parquet tag: an excluded field whose dash
	// tag is surrounded by other keys stays excluded, and adding foreign keys
	// to a column's tag changes nothing
	for si, s := range b.Structs {
		for i, fd := range s.Fields {
			if fd.Embedded {
				continue
			}
			name := fd.Tag
			if name == "" {
				name = fd.Name
			}
			for vi, raw := range []string{
				"`json:\"" + name + "\" parquet:\"" + name + "\"`",
				"`parquet:\"" + name + "\" json:\"-\"`",
				"`json:\"" + name + ",omitempty\" parquet:\"" + name + "\"`",
				"`db:\"x\" parquet:\"" + name + "\" json:\"y,omitempty\"`",
				"`json:\",omitempty\" xml:\"a b,attr\" parquet:\"" + name + "\"`",
			} {
				if !thorough && vi > 2 {
					break
				}
				st := cloneStructs(b.Structs)
				g := fd
				g.Tag = raw
				st[si].Fields[i] = g
				out = append(out, decor{Desc: fmt.Sprintf("extratag:%d@%s.%d", vi, s.Name, i), Structs: st})
			}
		}
		for pos := 0; pos <= len(s.Fields); pos += len(s.Fields) + 0 {
			for vi, raw := range []string{"`json:\"excl\" parquet:\"-\"`", "`parquet:\"-\" json:\"excl\"`", "`json:\"-\" parquet:\"-\" db:\"-\"`",
				"`json:\"excl,omitempty\" parquet:\"-\"`", "`json:\",omitempty\" parquet:\"-\"`", "`parquet:\"-\" json:\"excl,omitempty\"`"} {
				st := cloneStructs(b.Structs)
				fs := append([]fdef(nil), st[si].Fields[:pos]...)
				fs = append(fs, fdef{Name: "Excl", Type: "int32", Tag: raw})
				fs = append(fs, st[si].Fields[pos:]...)
				st[si].Fields = fs
				out = append(out, decor{Desc: fmt.Sprintf("dashextratag:%d@%s.%d", vi, s.Name, pos), Structs: st})
			}
			if len(s.Fields) == 0 {
				break
			}
		}
	}
	// grouped declarations ("A, b T"): an unexported name declared together
	// with an exported one is still excluded, and grouping exported names
	// equals declaring them one by one.  Only untagged fields (a tag would
	// apply to every name of the group).
	for si, s := range b.Structs {
		for i, fd := range s.Fields {
			if fd.Tag != "" || fd.Embedded {
				continue
			}
			for _, hidden := range []string{"hidden", "x"} {
				for _, order := range []string{"after", "before"} {
					st := cloneStructs(b.Structs)
					g := fd
					if order == "after" {
						g.Name = fd.Name + ", " + hidden
					} else {
						g.Name = hidden + ", " + fd.Name
					}
					st[si].Fields[i] = g
					out = append(out, decor{Desc: fmt.Sprintf("grouped:%s:%s@%s.%d", hidden, order, s.Name, i), Structs: st})
				}
				if !thorough {
					break
				}
			}
			if i+1 < len(s.Fields) && s.Fields[i+1].Tag == "" && !s.Fields[i+1].Embedded && s.Fields[i+1].Type == fd.Type {
				st := cloneStructs(b.Structs)
				g := fd
				g.Name = fd.Name + ", " + s.Fields[i+1].Name
				fs := append([]fdef(nil), st[si].Fields[:i]...)
				fs = append(fs, g)
				fs = append(fs, st[si].Fields[i+2:]...)
				st[si].Fields = fs
				out = append(out, decor{Desc: fmt.Sprintf("groupedpair@%s.%d", s.Name, i), Structs: st})
			}
		}
	}
	// the same struct embedded at two places of the tree: every pair of
	// identical runs (same field names, types and tags) in two different
	// structs is replaced by one shared embedded type
	for si := range b.Structs {
		for sj := si + 1; sj < len(b.Structs); sj++ {
			a, c := b.Structs[si].Fields, b.Structs[sj].Fields
			for i := 0; i < len(a); i++ {
				for k := 0; k < len(c); k++ {
					for l := 1; i+l <= len(a) && k+l <= len(c); l++ {
						same := true
						for m := 0; m < l; m++ {
							if a[i+m] != c[k+m] {
								same = false
							}
						}
						if !same {
							break
						}
						st := cloneStructs(b.Structs)
						run := append([]fdef(nil), a[i:i+l]...)
						fa := append(append(append([]fdef(nil), a[:i]...), fdef{Type: "Emb", Embedded: true}), a[i+l:]...)
						fc := append(append(append([]fdef(nil), c[:k]...), fdef{Type: "Emb", Embedded: true}), c[k+l:]...)
						st[si].Fields, st[sj].Fields = fa, fc
						st = append(st, sdef{"Emb", run})
						out = append(out, decor{Desc: fmt.Sprintf("embedshared@%s.%d+%s.%d,len%d", b.Structs[si].Name, i, b.Structs[sj].Name, k, l), Structs: st})
					}
				}
			}
		}
	}
	return out
}

type dcase struct {
	Base  string `json:"base"`
	Decor string `json:"decoration"`
	Class string `json:"class"`
}

type job struct {
	b base
	d []decor
}

func jobs(thorough bool) []job {
	var out []job
	const per = 110
	for _, b := range bases {
		ds := decorations(b, thorough)
		for i := 0; i < len(ds); i += per {
			j := i + per
			if j > len(ds) {
				j = len(ds)
			}
			out = append(out, job{b, ds[i:j]})
		}
	}
	return out
}

func runJob(tier string, idx int, jb job) ([]prog.Result, []string, error) {
	var progs []prog.Program
	var descs []string
	progs = append(progs, prog.Program{Name: "base", Target: "B|" + jb.b.ID, Type: jb.b.Root, Source: render("base", jb.b.Structs, "")})
	descs = append(descs, "")
	for i, d := range jb.d {
		name := fmt.Sprintf("d%04d", i)
		progs = append(progs, prog.Program{Name: name, Target: "D|" + jb.b.ID + "|" + d.Desc, Type: jb.b.Root, Source: render(name, d.Structs, d.Extra)})
		descs = append(descs, d.Desc)
	}
	cfg := prog.BatchConfig{
		MCDir:      os.Getenv("VERIF_MC"),
		RelDir:     fmt.Sprintf("work/c14/%s/j%04d", tier, idx),
		Parquetgen: os.Getenv("VERIF_PARQUETGEN"),
		RunnerPkg:  "verif/mc/checks/c14/runner",
		Env:        []string{"PROGRUN_MODE=c14"},
		BuildP:     3,
		Timeout:    15 * time.Minute,
		GoCache:    scratchCache(),
	}
	res, err := prog.RunBatch(cfg, progs)
	return res, descs, err
}

func verdicts(r prog.Result) [][2]string {
	var out [][2]string
	if r.NonDet {
		out = append(out, [2]string{"nondeterministic", r.GenFail})
	} else if r.GenFail != "" {
		out = append(out, [2]string{"gen-fail", r.GenFail})
	}
	if r.CompileFail != "" {
		out = append(out, [2]string{"compile-fail", r.CompileFail})
	}
	if r.Crash != "" {
		out = append(out, [2]string{"crash", r.Crash})
	}
	for _, fl := range r.Failures {
		cl := fl.Class
		if fl.Code != "" {
			cl += "/" + fl.Code
		}
		out = append(out, [2]string{cl, fl.Msg})
	}
	return out
}

func run(c *fw.Ctx) {
	if c.Thorough() {
		cacheShard = c.Shard // worker-private scratch cache, trimmed between batches
	}
	js := jobs(c.Thorough())
	total := 0
	for _, j := range js {
		total += len(j.d)
	}
	c.Bound("decorated_programs", total)
	c.Bound("bases", len(bases))
	for idx, jb := range js {
		if idx%c.Shards != c.Shard {
			continue
		}
		if c.Expired() {
			c.Capped(fmt.Sprintf("time budget hit before job %d of %d", idx, len(js)))
			break
		}
		if c.Thorough() {
			prog.TrimCache(scratchCache(), 3<<30)
		}
		res, descs, err := runJob(c.Tier, idx, jb)
		if err != nil {
			fmt.Fprintf(os.Stderr, "job %d: %v\n", idx, err)
			os.Exit(3)
		}
		for i, r := range res {
			c.EvalN(r.Evals + 1)
			if i == 0 {
				// the base itself: its failures invalidate the comparison
				for _, v := range verdicts(r) {
					c.Violate(fmt.Sprintf("base=%s BASE class=%s", jb.b.ID, v[0]), "base definition "+jb.b.ID+" fails: "+v[1], "decor", dcase{jb.b.ID, "", v[0]})
				}
				continue
			}
			c.Count("programs", 1)
			c.Distinct("D|" + jb.b.ID + "|" + descs[i])
			if c.WantSample() && i%37 == 1 {
				c.Sample(map[string]interface{}{"base": jb.b.ID, "decoration": descs[i], "inputs": r.Evals})
			}
			for _, v := range verdicts(r) {
				c.Violate(fmt.Sprintf("base=%s decor=%s class=%s", jb.b.ID, descs[i], v[0]), fmt.Sprintf("base %s decorated with %s: %s: %s", jb.b.ID, descs[i], v[0], v[1]), "decor", dcase{jb.b.ID, descs[i], v[0]})
			}
		}
	}
}

func replay(c *fw.Ctx, kind string, data json.RawMessage) string {
	var dc dcase
	if err := json.Unmarshal(data, &dc); err != nil {
		return "bad case: " + err.Error()
	}
	for _, b := range bases {
		if b.ID != dc.Base {
			continue
		}
		var ds []decor
		for _, d := range decorations(b, true) {
			if d.Desc == dc.Decor {
				ds = append(ds, d)
			}
		}
		if dc.Decor != "" && len(ds) == 0 {
			return "unknown decoration " + dc.Decor
		}
		tier := fmt.Sprintf("replay%d", os.Getpid())
		defer os.RemoveAll(filepath.Join(os.Getenv("VERIF_MC"), "work/c14", tier))
		res, _, err := runJob(tier, 0, job{b, ds})
		if err != nil {
			return "harness: " + err.Error()
		}
		which := 0
		if dc.Decor != "" {
			which = 1
		}
		for _, v := range verdicts(res[which]) {
			if v[0] == dc.Class {
				return fmt.Sprintf("base %s decorated with %s: %s: %s", dc.Base, dc.Decor, v[0], v[1])
			}
		}
		if vs := verdicts(res[which]); len(vs) > 0 {
			return fmt.Sprintf("fails differently now: %v", vs[0])
		}
		return ""
	}
	return "unknown base " + dc.Base
}

// scratchCache is the build cache for the generated programs: the persistent
// shared one in the quick tier (set by vrun), a worker-private directory under
// the run's scratch cache in the thorough tier (trimmed between batches).
var cacheShard = -1

func scratchCache() string {
	base := os.Getenv("VERIF_SCRATCH_GOCACHE")
	if base == "" || cacheShard < 0 {
		return base
	}
	return filepath.Join(base, fmt.Sprintf("w%d", cacheShard))
}

// Main runs the check.
func Main() {
	fw.Main(fw.Spec{
		ID:    "C14",
		Level: "exploration",
		Rule: "program enumeration: for each base struct definition (mini, three nested shapes, document, person without embedding) every insertion, at every field position of every struct of the shape, of (i) an unexported field (names hidden/x/_x/non-ASCII lower case) or (ii) an exported field tagged parquet:\"-\", over a menu of Go types (primitives, pointers, slices, arrays, maps, channels, funcs, interfaces, inline and named structs), " +
			"and (iii) every replacement of a contiguous run of sibling fields by an embedded struct (also two deep and split), every pair of identical runs in two different structs replaced by one shared embedded type (the same struct embedded at two places of the tree), every embedding combined with an excluded field (dash-tagged or unexported) directly before or after the embedded struct (thorough: also first or last inside it), exported fields of unsupported types (ignored by default) in a struct and inside an embedded struct, and (iv) grouped declarations: an unexported name declared together with an exported one (F, hidden T) and adjacent same-typed fields declared as one group (A, B T). Each decorated program is generated, compiled and run next to its base: for every value with <= s constructor nodes (and pairs) the two writers' files must be byte-identical (excluded fields set to garbage), and reading into fresh decorated structs must leave excluded fields zero and return the values. " +
			"quick uses one name with seven types plus every name with one type; thorough the full product. distinct = decorated program",
		Assumptions: []string{
			"one decoration per program, except the pairs (embedding, excluded field next to or inside the embedded struct)",
			"the expected schema of a decorated struct is derived by the harness's own rules (README) and must equal the base schema, which is itself asserted",
		},
		Run:            run,
		Replay:         replay,
		QuickBudget:    420 * time.Second,
		ThoroughBudget: 60 * time.Minute,
		MaxShards:      8,
		MaxConfirm:     3,
		MaxViolations:  200000,
	})
}
