// Package c10: a failed read or seek never turns into silently wrong rows.
// Exhaustive over the index k of the failing Read/Seek/ReadByte call on the
// source, for several fault kinds, transient and sticky.
package c10

import (
	"encoding/json"
	"fmt"
	"sort"
	"strings"
	"time"

	"verif/mc/drive"
	"verif/mc/env"
	"verif/mc/families"
	"verif/mc/fw"
	"verif/mc/oracle"
	"verif/mc/sut"
)

type rcase struct {
	Workload string         `json:"workload"`
	Plan     env.SourcePlan `json:"source_plan"`
}

var thoroughTier bool
var wlCache map[string]families.Workload
var fileCache = map[string][]byte{}

func workloads() map[string]families.Workload {
	if wlCache == nil {
		wlCache = map[string]families.Workload{}
		for _, w := range families.Workloads([]string{"mini", "person"}, families.Codecs3()) {
			wlCache[w.Name] = w
		}
		// every column type x repetition (flat24) and nested repetition
		// (document): the multi-page layout, one codec each in quick
		for _, w := range families.Workloads([]string{"flat24", "document", "nestrep", "nest16"}, families.Codecs3()) {
			if thoroughTier || (strings.HasSuffix(w.Name, "/multipage") && (strings.Contains(w.Name, "flat24/uncompressed") || strings.Contains(w.Name, "document/snappy") || strings.Contains(w.Name, "nestrep/snappy") || strings.Contains(w.Name, "nest16/gzip"))) {
				wlCache[w.Name] = w
			}
		}
		// pages of 2.6 MB (in the middle of the file and as its very last page)
		for _, w := range families.BigPageWorkloads(families.Codecs3()) {
			wlCache[w.Name] = w
		}
	}
	return wlCache
}

func fileOf(w families.Workload) []byte {
	if f, ok := fileCache[w.Name]; ok {
		return f
	}
	t := sut.Get(w.Target)
	var bs [][]interface{}
	g := oracle.GoRecs(t, w.Recs)
	p := 0
	for _, n := range w.Batches {
		bs = append(bs, g[p:p+n])
		p += n
	}
	f, err, pm := drive.WriteFile(t, bs, nil, w.Page, w.Codec, nil)
	if err != nil || pm != "" {
		panic(fmt.Sprintf("workload %s cannot be written: %v %s", w.Name, err, pm))
	}
	fileCache[w.Name] = f
	return f
}

// runPlan follows the documented loop and applies the C10 oracle.
func runPlan(w families.Workload, plan env.SourcePlan) (string, *env.Source) {
	t := sut.Get(w.Target)
	src, s := env.NewSource(fileOf(w), plan)
	rr := drive.ReadAll(t, src, len(w.Recs)+8)
	if rr.Panic != "" {
		return "panic: " + rr.Panic, s
	}
	if rr.OpenErr != nil || rr.Err != nil {
		return "", s // reported
	}
	// no error reported: every row must be there and be right
	if rr.MaxIter {
		return fmt.Sprintf("no error reported but Next() kept returning true (> %d rows for %d written)", len(rr.Recs), len(w.Recs)), s
	}
	if d := drive.CompareRecords(t.Schema(), w.Recs, rr.Snap); d != "" {
		return fmt.Sprintf("no error reported (constructor ok, Error()==nil) after %d injected fault(s), but rows are wrong or missing: %s", s.Fired, d), s
	}
	return "", s
}

func run(c *fw.Ctx) {
	thoroughTier = c.Thorough()
	var names []string
	for n := range workloads() {
		names = append(names, n)
	}
	sort.Strings(names)
	c.Bound("workloads", names)
	kinds := []string{"sentinel", "eof", "unexpected-eof", "temporary"}
	for _, name := range names {
		w := workloads()[name]
		for _, br := range []bool{false, true} {
			msg, base := runPlan(w, env.SourcePlan{ByteReader: br})
			if msg != "" || base.Fired != 0 {
				c.Violate("baseline|"+name, "baseline read fails: "+msg, "read", rcase{name, env.SourcePlan{ByteReader: br}})
				continue
			}
			K := len(base.Calls)
			c.Count("source_calls_enumerated", int64(K))
			try := func(tag string, plan env.SourcePlan) {
				if !c.Mine() {
					return
				}
				c.Eval()
				plan.ByteReader = br
				c.Distinct(fmt.Sprintf("%s|br%v|%s", name, br, tag))
				if c.WantSample() && c.Shard == 1 {
					c.Sample(rcase{name, plan})
				}
				c.Guard("read", rcase{name, plan})
				if msg, _ := runPlan(w, plan); msg != "" {
					c.Violate(fmt.Sprintf("%s|%s|%s", w.Target, w.Codec, classify(msg)), msg+fmt.Sprintf("\nworkload %s plan %s (fault-free run makes %d source calls; call %s)", name, tag, K, describeCall(base, tag)), "read", rcase{name, plan})
				}
			}
			for k := 0; k < K; k++ {
				for _, kind := range kinds {
					try(fmt.Sprintf("k%d|%s|transient", k, kind), env.SourcePlan{Dev: map[int]env.Deviation{k: {Fail: kind}}})
					try(fmt.Sprintf("k%d|%s|sticky", k, kind), env.SourcePlan{StickyFrom: k + 1, StickyKind: kind})
					if base.Calls[k].Kind == "read" && base.Calls[k].Want > 1 {
						try(fmt.Sprintf("k%d|%s|withdata", k, kind), env.SourcePlan{Dev: map[int]env.Deviation{k: {Fail: kind, WithData: true}}})
					}
				}
			}
			if c.Thorough() {
				// all pairs of transient faults (second index on the default
				// run's numbering; after a first fault the run may be shorter,
				// in which case the second simply never fires)
				for k := 0; k < K; k++ {
					if c.Expired() {
						c.Capped("time budget hit in pairs")
						return
					}
					for k2 := k + 1; k2 < K && k2 < k+40; k2++ {
						for _, kind := range []string{"sentinel", "eof"} {
							try(fmt.Sprintf("k%d|k%d|%s", k, k2, kind), env.SourcePlan{Dev: map[int]env.Deviation{k: {Fail: kind}, k2: {Fail: kind}}})
						}
					}
				}
			}
		}
	}
}

func describeCall(base *env.Source, tag string) string {
	var k int
	fmt.Sscanf(tag, "k%d", &k)
	if k < len(base.Calls) {
		return fmt.Sprintf("%d is a %s of %d bytes", k, base.Calls[k].Kind, base.Calls[k].Want)
	}
	return ""
}

func classify(msg string) string {
	out := []rune{}
	for _, ch := range msg {
		if ch == '(' || ch == '\n' || ch == ':' {
			break
		}
		if ch >= '0' && ch <= '9' {
			ch = '#'
		}
		out = append(out, ch)
	}
	return string(out)
}

func replay(c *fw.Ctx, kind string, data json.RawMessage) string {
	thoroughTier = true
	var rc rcase
	if err := json.Unmarshal(data, &rc); err != nil {
		return "bad case: " + err.Error()
	}
	w, ok := workloads()[rc.Workload]
	if !ok {
		return "unknown workload " + rc.Workload
	}
	msg, _ := runPlan(w, rc.Plan)
	return msg
}

// Main runs the check.
func Main() {
	fw.Main(fw.Spec{
		ID:    "C10",
		Level: "fault_enumeration",
		Rule: "for each workload file (mini, person x 3 codecs x {1 page, multi-page, 2 row groups}), with and without io.ByteReader on the source, the fault-free run's K source calls (Read, Seek, ReadByte) are counted and for every k < K call k fails with a sentinel error, io.EOF or io.ErrUnexpectedEOF, transient and sticky, and for reads also (n>0, err); thorough adds pairs of transient faults within a window of 40 calls. " +
			"Driver = the documented loop. Oracle: constructor error, or Error() non-nil after Next returned false, or the delivered rows equal the full expected list; never a panic",
		Assumptions: []string{
			"when an error is reported the rows delivered before it are not judged (the property allows any prefix then)",
		},
		Run:            run,
		Replay:         replay,
		QuickBudget:    100 * time.Second,
		ThoroughBudget: 25 * time.Minute,
		MemLimitMB:     4096,
	})
}
