// Package race is the free-running counterpart of the C13 schedule
// exploration: the same writer/reader histories on 16 goroutines with the
// real bytebufferpool, built with -race.  (A cooperative scheduler's
// hand-offs are happens-before edges, so data races can only be observed in a
// free-running pass.)
package race

import (
	"bytes"
	"fmt"
	"os"
	"strconv"
	"sync"

	"verif/mc/drive"
	"verif/mc/families"
	"verif/mc/oracle"
	"verif/mc/sut"
)

func write(target string, codec sut.Codec, seed int) []byte {
	t := sut.Get(target)
	recs := families.MixedRecords(t, 3+seed)[seed:]
	page := 1
	if seed >= 2 {
		// long runs of equal levels in one page (RLE runs, multi-byte headers)
		recs = families.RunRecords(t, 40+300*(seed-2))
		page = 0
	}
	g := oracle.GoRecs(t, recs)
	var buf bytes.Buffer
	w, err := t.NewWriter(&buf, page, codec)
	if err != nil {
		panic(err)
	}
	for _, r := range g {
		w.Add(r)
	}
	if err := w.Write(); err != nil {
		panic(err)
	}
	if err := w.Close(); err != nil {
		panic(err)
	}
	return buf.Bytes()
}

// Main runs the pass; os.Args[1] = iterations per goroutine.
func Main() {
	iters := 150
	if len(os.Args) > 1 {
		iters, _ = strconv.Atoi(os.Args[1])
	}
	targets := []string{"mini", "flat3"}
	// cold start: the very first use of the generated packages in this process
	// happens on 16 goroutines at once (lazily initialised package state is
	// built here); the outputs are compared with the references afterwards
	type coldOut struct {
		key string
		out []byte
	}
	cold := make([]coldOut, 16)
	{
		var wg sync.WaitGroup
		start := make(chan struct{})
		for g := 0; g < 16; g++ {
			wg.Add(1)
			go func(g int) {
				defer wg.Done()
				tn, cd, seed := targets[g%2], (g/2)%3, (g/8)%2
				<-start
				cold[g] = coldOut{fmt.Sprintf("%s/%d/%d", tn, cd, seed), write(tn, sut.Codec(cd), seed)}
			}(g)
		}
		close(start)
		wg.Wait()
	}
	// sequential references
	ref := map[string][]byte{}
	for _, tn := range targets {
		for cd := 0; cd < 3; cd++ {
			for seed := 0; seed < 4; seed++ {
				ref[fmt.Sprintf("%s/%d/%d", tn, cd, seed)] = write(tn, sut.Codec(cd), seed)
			}
		}
	}
	var wg sync.WaitGroup
	var mu sync.Mutex
	bad := 0
	for _, c := range cold {
		if !bytes.Equal(c.out, ref[c.key]) {
			bad++
		}
	}
	for g := 0; g < 16; g++ {
		wg.Add(1)
		go func(g int) {
			defer wg.Done()
			for i := 0; i < iters; i++ {
				tn := targets[(g+i)%2]
				cd := (g + i/2) % 3
				seed := (g / 2) % 4
				key := fmt.Sprintf("%s/%d/%d", tn, cd, seed)
				if g%4 == 3 && seed < 2 {
					// reader
					t := sut.Get(tn)
					rr := drive.ReadAll(t, bytes.NewReader(ref[key]), 16)
					want := families.MixedRecords(t, 3+seed)[seed:]
					if rr.Panic != "" || rr.OpenErr != nil || rr.Err != nil || drive.CompareRecords(t.Schema(), want, rr.Snap) != "" {
						mu.Lock()
						bad++
						mu.Unlock()
					}
					continue
				}
				out := write(tn, sut.Codec(cd), seed)
				if !bytes.Equal(out, ref[key]) {
					mu.Lock()
					bad++
					mu.Unlock()
				}
			}
		}(g)
	}
	wg.Wait()
	if bad > 0 {
		fmt.Printf("CONCURRENT-MISMATCH: %d concurrent executions differed from the sequential reference\n", bad)
		os.Exit(67)
	}
	fmt.Println("race pass: ok")
}
