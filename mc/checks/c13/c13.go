// Package c13: output depends only on an instance's own history; instances
// do not interfere.  Stateless exploration of every interleaving (up to a
// deviation bound) of independent writer/reader instances over the shared
// buffer pools, for every prior pool content in a menu; plus a separate
// free-running -race pass of the same bodies with the real pool.
package c13

import (
	"bytes"
	"encoding/json"
	"fmt"
	"hash/fnv"
	"io"
	"os"
	"os/exec"
	"path/filepath"
	"runtime"
	"strings"
	"time"

	pool "github.com/valyala/bytebufferpool"
	"verif/mc/drive"
	"verif/mc/families"
	"verif/mc/fw"
	"verif/mc/oracle"
	"verif/mc/refpq"
	"verif/mc/sched"
	"verif/mc/sut"
)

// ---------------------------------------------------------------- instances

type inst struct {
	Kind   string `json:"kind"`   // writer | reader
	Target string `json:"target"` // mini | flat3
	Codec  int    `json:"codec"`
	Seed   int    `json:"seed"` // selects the records
	// FailAt > 0: the FailAt-th call of the instance's sink (Write) or source
	// (Read/Seek) fails.  The instance's own history then includes the fault;
	// what it produces up to the error must still not depend on others, and -
	// the point of these scenarios - what it leaves behind in the process (the
	// buffer pool) must not change what later instances produce.
	FailAt int `json:"env_call_failing,omitempty"`
	// Chunk > 0 caps the bytes a reader instance's source returns per Read, so
	// that a failing call can fall in the middle of a page body.
	Chunk int `json:"source_chunk,omitempty"`
}

var errEnv = fmt.Errorf("injected environment fault")

type schedSink struct {
	buf    bytes.Buffer
	calls  int
	failAt int
}

func (s *schedSink) Write(p []byte) (int, error) {
	sched.Point("sink.Write")
	s.calls++
	if s.calls == s.failAt {
		return 0, errEnv
	}
	return s.buf.Write(p)
}

type schedSource struct {
	r      *bytes.Reader
	calls  int
	failAt int
	chunk  int
}

func (s *schedSource) Read(p []byte) (int, error) {
	sched.Point("source.Read")
	s.calls++
	if s.calls == s.failAt {
		return 0, errEnv
	}
	if s.chunk > 0 && len(p) > s.chunk {
		p = p[:s.chunk]
	}
	return s.r.Read(p)
}

func (s *schedSource) Seek(off int64, whence int) (int64, error) {
	sched.Point("source.Seek")
	s.calls++
	if s.calls == s.failAt {
		return 0, errEnv
	}
	return s.r.Seek(off, whence)
}

func recsFor(in inst) []refpq.Val {
	t := sut.Get(in.Target)
	all := families.MixedRecords(t, 2+in.Seed)
	return all[in.Seed:]
}

// runWriter executes the writer history: 2 records, page size 1, Write, Close.
func runWriter(in inst, w io.Writer) error {
	t := sut.Get(in.Target)
	g := oracle.GoRecs(t, recsFor(in))
	wr, err := t.NewWriter(w, 1, sut.Codec(in.Codec))
	if err != nil {
		return err
	}
	for _, r := range g {
		wr.Add(r)
	}
	if err := wr.Write(); err != nil {
		return err
	}
	return wr.Close()
}

type outcome struct {
	bytes []byte
	rows  []refpq.Val
	err   string
}

func (o outcome) hash() string {
	h := fnv.New64a()
	h.Write(o.bytes)
	for _, r := range o.rows {
		fmt.Fprintf(h, "%v", r)
	}
	h.Write([]byte(o.err))
	return fmt.Sprintf("%x", h.Sum64())
}

// body builds the thread body of an instance; its outcome goes to *out.
func body(in inst, file []byte, out *outcome) sched.Body {
	return func() {
		switch in.Kind {
		case "writer":
			s := &schedSink{failAt: in.FailAt}
			if err := runWriter(in, s); err != nil {
				out.err = err.Error()
			}
			out.bytes = s.buf.Bytes()
		case "reader":
			t := sut.Get(in.Target)
			src := &schedSource{r: bytes.NewReader(file), failAt: in.FailAt, chunk: in.Chunk}
			rr := drive.ReadAll(t, src, 16)
			out.rows = rr.Snap
			switch {
			case rr.Panic != "":
				out.err = "panic: " + rr.Panic
			case rr.OpenErr != nil:
				out.err = rr.OpenErr.Error()
			case rr.Err != nil:
				out.err = rr.Err.Error()
			}
		}
	}
}

// solo computes the reference outcome of an instance: alone, ideal pool.
func solo(in inst) (outcome, []byte) {
	sched.DataChoices = true
	sched.StateHashing = false
	pool.BufferPoints = false
	pool.Mode = pool.Ideal
	pool.ResetAll()
	var file []byte
	if in.Kind == "reader" {
		var b bytes.Buffer
		if err := runWriter(inst{Kind: "writer", Target: in.Target, Codec: in.Codec, Seed: in.Seed}, &b); err != nil {
			panic(err)
		}
		file = b.Bytes()
	}
	var o1, o2 outcome
	x := sched.Run([]sched.Body{body(in, file, &o1)}, nil, 0)
	if len(x.Panics) > 0 {
		panic("solo run panics: " + x.Panics[0])
	}
	x = sched.Run([]sched.Body{body(in, file, &o2)}, nil, 0)
	if o1.hash() != o2.hash() {
		// the same history, alone, twice in a row in this process gives two
		// different outcomes: that is the property failing in its simplest
		// form (the first run changed what the second one produces)
		soloNondet = fmt.Sprintf("instance %+v run alone twice in a row gives two different outcomes (error %q then %q, %d then %d bytes, %d then %d rows): what it produces depends on the earlier run in the same process", in, o1.err, o2.err, len(o1.bytes), len(o2.bytes), len(o1.rows), len(o2.rows))
	}
	return o1, file
}

// soloNondet is set by solo when repeating a history changes its outcome.
var soloNondet string

// ---------------------------------------------------------------- scenarios

type scenario struct {
	Unbounded bool   `json:"unbounded_state_hashed,omitempty"`
	BufPoints bool   `json:"buffer_method_points,omitempty"`
	Name      string `json:"name"`
	Insts     []inst `json:"instances"`
	Seeds     []int  `json:"pool_seed_caps"` // buffers pre-seeded into every pool (capacities)
	Mode      int    `json:"pool_mode"`
	Bound     int    `json:"bound"`
	// Seq runs the instances one after the other on ONE goroutine (what a
	// program that retries after a failure does): state that the library
	// keeps per goroutine / per P (sync.Pool) is then shared as well.
	Seq bool `json:"same_goroutine_sequence,omitempty"`
}

type scase struct {
	Scenario scenario `json:"scenario"`
	Choices  []int    `json:"choices"`
}

func scenarios(thorough bool) []scenario {
	w := func(t string, c, seed int) inst { return inst{Kind: "writer", Target: t, Codec: c, Seed: seed} }
	r := func(t string, c int) inst { return inst{Kind: "reader", Target: t, Codec: c} }
	var out []scenario
	add := func(name string, insts []inst, qb, tb int) {
		bound := qb
		if thorough {
			bound = tb
		}
		for _, mode := range []int{pool.Reuse, pool.ReusePoison} {
			seedSets := [][]int{nil}
			if mode == pool.ReusePoison {
				seedSets = [][]int{nil, {0}, {64}, {4096}, {64, 4096}, {64, 64}}
			}
			for _, ss := range seedSets {
				b := bound
				if len(ss) > 0 && b > 1 {
					b-- // prior-history variants: one deviation less
				}
				out = append(out, scenario{Name: name, Insts: insts, Seeds: ss, Mode: mode, Bound: b})
			}
		}
	}
	add("A+B snappy", []inst{w("mini", 1, 0), w("flat3", 1, 0)}, 2, 3)
	add("A+A' snappy", []inst{w("mini", 1, 0), w("mini", 1, 1)}, 2, 3)
	add("A+A' uncompressed", []inst{w("mini", 0, 0), w("mini", 0, 1)}, 2, 3)
	add("A+A' gzip", []inst{w("mini", 2, 0), w("mini", 2, 1)}, 1, 2)
	add("A+C snappy", []inst{w("mini", 1, 1), r("mini", 1)}, 1, 2)
	add("B+C uncompressed", []inst{w("flat3", 0, 0), r("mini", 0)}, 1, 2)
	add("C+C snappy", []inst{r("mini", 1), r("mini", 1)}, 1, 2)
	add("A+B+C snappy", []inst{w("mini", 1, 0), w("flat3", 1, 0), r("mini", 1)}, 1, 2)
	if thorough {
		add("A+C gzip", []inst{w("mini", 2, 1), r("mini", 2)}, 1, 2)
		add("A+A'+B snappy", []inst{w("mini", 1, 0), w("mini", 1, 1), w("flat3", 1, 0)}, 2, 2)
	}
	// every column kind (24 columns incl. required bools): stale pool contents
	// leaking into any column's page show up at 0-1 deviations under poison
	add("F+F' snappy (flat24, all column kinds)", []inst{w("flat24", 1, 0), w("flat24", 1, 1)}, 1, 1)
	add("F+A uncompressed", []inst{w("flat24", 0, 0), w("mini", 0, 0)}, 1, 1)
	// no deviation bound at all: every interleaving at the pool/sink/source
	// points, pruned at already visited global states
	for _, u := range []scenario{
		{Name: "A+B snappy", Insts: []inst{w("mini", 1, 0), w("flat3", 1, 0)}},
		{Name: "A+A' snappy", Insts: []inst{w("mini", 1, 0), w("mini", 1, 1)}},
		{Name: "A+A' uncompressed", Insts: []inst{w("mini", 0, 0), w("mini", 0, 1)}},
		{Name: "A+A' gzip", Insts: []inst{w("mini", 2, 0), w("mini", 2, 1)}},
		{Name: "A+C snappy", Insts: []inst{w("mini", 1, 1), r("mini", 1)}},
	} {
		for _, mode := range []int{pool.ReusePoison, pool.Reuse} {
			if os.Getenv("VERIF_C13_UNBOUNDED") == "" {
				// Tried and dropped from the registered tiers: the global state
				// space does not close (buffer capacities and contents are part
				// of every thread's state: > 10^7 states in 30 minutes without
				// finishing, with or without pool data choices).  The bounded
				// passes are what the evidence reports.
				continue
			}
			u.Mode = mode
			u.Unbounded = true
			u.Name = u.Name + " [unbounded]"
			out = append(out, u)
			u.Name = strings.TrimSuffix(u.Name, " [unbounded]")
		}
	}
	// an instance whose environment fails at call k, then a healthy instance:
	// every k, every codec (what the failed instance leaves in the pool must
	// not reach the next one; the pool monitors see a double or missing Put)
	fb := 0
	if thorough {
		fb = 1
	}
	for cd := 0; cd < 3; cd++ {
		for _, tn := range []string{"mini", "flat3"} {
			calls := envCalls(w(tn, cd, 0))
			for k := 1; k <= calls; k++ {
				a := w(tn, cd, 0)
				a.FailAt = k
				out = append(out, scenario{Name: fmt.Sprintf("same goroutine: %s writer failing at sink call %d/%d (%s), then the same history on a healthy sink", tn, k, calls, sut.Codec(cd)), Insts: []inst{a, w(tn, cd, 0)}, Mode: pool.Reuse, Bound: 0, Seq: true})
				for _, mode := range []int{pool.Reuse, pool.ReusePoison} {
					out = append(out, scenario{Name: fmt.Sprintf("%s writer failing at sink call %d/%d (%s), then B gzip", tn, k, calls, sut.Codec(cd)), Insts: []inst{a, w("flat3", 2, 0)}, Mode: mode, Bound: fb})
					if cd == 1 {
						out = append(out, scenario{Name: fmt.Sprintf("%s writer failing at sink call %d/%d (%s), then A' snappy", tn, k, calls, sut.Codec(cd)), Insts: []inst{a, w("mini", 1, 1)}, Mode: mode, Bound: fb})
					}
				}
			}
		}
		ra := r("mini", cd)
		ra.Chunk = 16 // a failing call can then fall inside a page body
		calls := envCalls(ra)
		for k := 1; k <= calls; k++ {
			a := ra
			a.FailAt = k
			out = append(out, scenario{Name: fmt.Sprintf("reader failing at source call %d/%d (%s), then A snappy", k, calls, sut.Codec(cd)), Insts: []inst{a, w("mini", 1, 0)}, Mode: pool.ReusePoison, Bound: 0})
			out = append(out, scenario{Name: fmt.Sprintf("reader failing at source call %d/%d (%s), then a reader of the same file", k, calls, sut.Codec(cd)), Insts: []inst{a, r("mini", cd)}, Mode: pool.Reuse, Bound: 0})
			out = append(out, scenario{Name: fmt.Sprintf("same goroutine: reader failing at source call %d/%d (%s), then a reader of the same file", k, calls, sut.Codec(cd)), Insts: []inst{a, r("mini", cd)}, Mode: pool.Reuse, Bound: 0, Seq: true})
		}
	}
	// every ByteBuffer method as a scheduling point too (no reduction)
	bp := 1
	if thorough {
		bp = 2
	}
	out = append(out, scenario{Name: "A+A' snappy, buffer-method points", Insts: []inst{w("mini", 1, 0), w("mini", 1, 1)}, Mode: pool.ReusePoison, Bound: bp, BufPoints: true})
	out = append(out, scenario{Name: "A+B gzip, buffer-method points", Insts: []inst{w("mini", 2, 0), w("flat3", 2, 0)}, Mode: pool.Reuse, Bound: 1, BufPoints: true})
	out = append(out, scenario{Name: "A+C uncompressed, buffer-method points", Insts: []inst{w("mini", 0, 0), r("mini", 0)}, Mode: pool.Reuse, Bound: 1, BufPoints: true})
	return out
}

// envCalls counts the sink / source calls of an instance's fault-free solo run.
func envCalls(in inst) int {
	sched.DataChoices = true
	sched.StateHashing = false
	pool.BufferPoints = false
	pool.Mode = pool.Ideal
	pool.ResetAll()
	n := 0
	if in.Kind == "writer" {
		s := &schedSink{}
		sched.Run([]sched.Body{func() { runWriter(in, s) }}, nil, 0)
		n = s.calls
	} else {
		var b bytes.Buffer
		if err := runWriter(inst{Kind: "writer", Target: in.Target, Codec: in.Codec, Seed: in.Seed}, &b); err != nil {
			panic(err)
		}
		src := &schedSource{r: bytes.NewReader(b.Bytes()), chunk: in.Chunk}
		sched.Run([]sched.Body{func() { drive.ReadAll(sut.Get(in.Target), src, 16) }}, nil, 0)
		n = src.calls
	}
	return n
}

type prepared struct {
	sc    scenario
	refs  []outcome
	files [][]byte
}

type soloResult struct {
	o outcome
	f []byte
}

var soloCache = map[inst]soloResult{}

func prepare(sc scenario) *prepared {
	p := &prepared{sc: sc}
	for _, in := range sc.Insts {
		sr, ok := soloCache[in]
		if !ok {
			o, f := solo(in)
			sr = soloResult{o, f}
			soloCache[in] = sr
		}
		o, f := sr.o, sr.f
		if o.err != "" && in.FailAt == 0 {
			panic("solo run fails: " + o.err)
		}
		p.refs = append(p.refs, o)
		p.files = append(p.files, f)
	}
	return p
}

func (p *prepared) reset() {
	pool.BufferPoints = p.sc.BufPoints
	pool.Mode = p.sc.Mode
	pool.ResetAll()
	for _, pl := range pool.Pools() {
		for _, c := range p.sc.Seeds {
			pl.Seed(c)
		}
	}
}

func (p *prepared) explorer(outs *[]outcome) *sched.Explorer {
	e := &sched.Explorer{Bound: p.sc.Bound, Horizon: 200000, Outcomes: map[string]int{}, Unbounded: p.sc.Unbounded}
	sched.StateHashing = p.sc.Unbounded
	// the unbounded pass enumerates every interleaving but keeps the pool's
	// answers at their default (LIFO); pool deviations are covered by the
	// bounded passes (with them the global state space does not close: > 10^7
	// states without finishing)
	sched.DataChoices = !p.sc.Unbounded
	e.Reset = p.reset
	e.Bodies = func() []sched.Body {
		*outs = make([]outcome, len(p.sc.Insts))
		var bs []sched.Body
		for i, in := range p.sc.Insts {
			bs = append(bs, body(in, p.files[i], &(*outs)[i]))
		}
		if p.sc.Seq {
			all := bs
			return []sched.Body{func() {
				for _, b := range all {
					b()
				}
			}}
		}
		return bs
	}
	e.Check = func(x *sched.Exec) {
		key := ""
		for i, in := range p.sc.Insts {
			o := (*outs)[i]
			key += o.hash() + "|"
			ref := p.refs[i]
			t := sut.Get(in.Target)
			if o.err != ref.err {
				x.Violations = append(x.Violations, fmt.Sprintf("instance %d (%s %s): error %q, alone it is %q", i, in.Kind, in.Target, o.err, ref.err))
			}
			if !bytes.Equal(o.bytes, ref.bytes) {
				x.Violations = append(x.Violations, fmt.Sprintf("instance %d (%s %s): produced %d bytes that differ from the %d bytes it produces alone (first difference at byte %d)", i, in.Kind, in.Target, len(o.bytes), len(ref.bytes), firstDiff(o.bytes, ref.bytes)))
			}
			if in.Kind == "reader" {
				if d := drive.CompareRecords(t.Schema(), ref.rows, o.rows); d != "" {
					x.Violations = append(x.Violations, fmt.Sprintf("instance %d (reader %s): rows differ from the rows it returns alone: %s", i, in.Target, d))
				}
			}
		}
		e.Outcomes[key]++
	}
	return e
}

func firstDiff(a, b []byte) int {
	for i := 0; i < len(a) && i < len(b); i++ {
		if a[i] != b[i] {
			return i
		}
	}
	if len(a) < len(b) {
		return len(a)
	}
	return len(b)
}

func classify(msg string) string {
	out := []rune{}
	for _, ch := range msg {
		if ch == '\n' || ch == ':' && len(out) > 20 {
			break
		}
		if ch >= '0' && ch <= '9' {
			ch = '#'
		}
		out = append(out, ch)
	}
	if len(out) > 90 {
		out = out[:90]
	}
	return string(out)
}

// ---------------------------------------------------------------- run

var raceKey, raceMsg, raceNote string
var raceIters int64

func run(c *fw.Ctx) {
	// (1) the free-running -race pass and the package-level variable audit
	// run once (shard 0)
	raceDone := make(chan struct{})
	if c.Shard == 0 {
		// runs next to the exploration (it is a separate process)
		go func() {
			defer close(raceDone)
			if key, msg := racePass(c); key != "" {
				raceKey, raceMsg = key, msg
			}
		}()
	} else {
		close(raceDone)
	}
	defer func() {
		<-raceDone
		if raceNote != "" {
			c.Note("%s", raceNote)
			c.Count("race_pass_goroutine_iterations", raceIters)
		}
		if raceKey != "" {
			c.Violate(raceKey, raceMsg, "race", map[string]string{"pass": "free-running -race"})
		}
	}()
	scs := scenarios(c.Thorough())
	if only := os.Getenv("VERIF_C13_ONLY"); only != "" {
		// development aid: restrict to scenarios whose name contains the string
		var f []scenario
		for _, sc := range scs {
			if strings.Contains(sc.Name, only) {
				f = append(f, sc)
			}
		}
		scs = f
	}
	var names []string
	for _, sc := range scs {
		names = append(names, fmt.Sprintf("%s mode=%d seeds=%v bound=%d", sc.Name, sc.Mode, sc.Seeds, sc.Bound))
	}
	c.Bound("scenarios", names)
	var totalExec, totalPoints int64
	for si, sc := range scs {
		if c.Expired() {
			c.Capped("time budget hit before scenario " + sc.Name)
			break
		}
		soloNondet = ""
		p := prepare(sc)
		if soloNondet != "" {
			if c.Shard == si%c.Shards {
				c.Violate(fmt.Sprintf("%s|repeating a history alone changes its outcome", sc.Name), soloNondet+"\nscenario "+sc.Name, "schedule", scase{sc, nil})
			}
			continue
		}
		var outs []outcome
		e := p.explorer(&outs)
		e.Shard, e.Shards = c.Shard, c.Shards
		e.Stop = c.Expired
		e.OnViolation = func(x *sched.Exec) {
			msgs := append(append([]string(nil), x.Violations...), x.Panics...)
			c.Violate(fmt.Sprintf("%s|mode%d|%s", sc.Name, sc.Mode, classify(msgs[0])), strings.Join(msgs, "\n")+fmt.Sprintf("\nscenario %s, pool mode %d, seeded caps %v, %d deviations, schedule %v", sc.Name, sc.Mode, sc.Seeds, x.Deviations, x.Choices), "schedule", scase{sc, x.Choices})
		}
		e.Explore()
		if e.Capped {
			c.Capped("time budget hit inside scenario " + sc.Name)
		}
		c.EvalN(int(e.Executions))
		c.Count("schedules", e.Executions)
		c.Count("states", e.Points) // choice points visited over all executions
		c.Count("transitions", e.Points)
		c.Count("traces_validated_against_impl", e.Executions)
		c.DistinctN(e.Executions) // each execution is a distinct choice sequence
		totalExec += e.Executions
		totalPoints += e.Points
		if sc.Unbounded {
			c.Count("unbounded_distinct_global_states", int64(len(e.Seen)))
			c.Count("unbounded_pruned_revisits", e.Pruned)
			if e.Capped {
				c.Note("unbounded pass of %s did not finish", sc.Name)
			}
		}
		if c.Shard == 0 {
			c.Bound(fmt.Sprintf("scenario_%02d", si), fmt.Sprintf("%s: max choice points per execution %d, distinct outcomes %d, unbounded=%v states(shard 0)=%d", sc.Name, e.MaxPoints, len(e.Outcomes), sc.Unbounded, len(e.Seen)))
			if c.WantSample() {
				c.Sample(map[string]interface{}{"scenario": sc, "executions_this_shard": e.Executions, "max_points": e.MaxPoints})
			}
		}
	}
}

// racePass builds the same bodies with the real bytebufferpool and -race and
// lets them run freely.  It returns a violation key and message ("" = clean).
func racePass(c *fw.Ctx) (key string, msg string) {
	mc := os.Getenv("VERIF_MC")
	runPkg := os.Getenv("VERIF_RUNPKG")
	work := os.Getenv("VERIF_WORK")
	if mc == "" || runPkg == "" {
		raceNote = "race pass skipped: not run through vrun"
		return "", ""
	}
	bin := filepath.Join(work, "bin", "race")
	t0 := time.Now()
	cmd := exec.Command("go", "build", "-race", "-tags", "verif", "-o", bin, "./"+strings.TrimPrefix(runPkg, "verif/mc/")+"/racemain")
	cmd.Dir = mc
	if out, err := cmd.CombinedOutput(); err != nil {
		fmt.Fprintf(os.Stderr, "race build failed: %v\n%s\n", err, out)
		os.Exit(3)
	}
	iters := "150"
	if c.Thorough() {
		iters = "1500"
	}
	cmd = exec.Command(bin, iters)
	cmd.Env = append(os.Environ(), "GORACE=halt_on_error=0 exitcode=66", "GOMAXPROCS=16")
	out, err := cmd.CombinedOutput()
	s := string(out)
	raceIters = int64(16 * atoi(iters))
	raceNote = fmt.Sprintf("free-running -race pass: 16 goroutines x %s iterations with the real bytebufferpool, %.1fs incl. build", iters, time.Since(t0).Seconds())
	if strings.Contains(s, "WARNING: DATA RACE") {
		i := strings.Index(s, "WARNING: DATA RACE")
		rep := s[i:]
		if len(rep) > 2500 {
			rep = rep[:2500]
		}
		return "race|" + raceSite(rep), "data race between separate instances (free-running -race pass):\n" + rep
	}
	if err != nil {
		return "race-pass|" + classify(lastLine(s)), "the free-running pass failed: " + err.Error() + "\n" + tailStr(s, 1500)
	}
	return "", ""
}

func atoi(s string) int { n := 0; fmt.Sscanf(s, "%d", &n); return n }

func lastLine(s string) string {
	ls := strings.Split(strings.TrimSpace(s), "\n")
	return ls[len(ls)-1]
}

func tailStr(s string, n int) string {
	if len(s) > n {
		return s[len(s)-n:]
	}
	return s
}

func raceSite(rep string) string {
	for _, l := range strings.Split(rep, "\n") {
		l = strings.TrimSpace(l)
		if strings.HasPrefix(l, "/") && !strings.Contains(l, "/runtime/") {
			if i := strings.Index(l, " +0x"); i > 0 {
				l = l[:i]
			}
			if i := strings.Index(l, "/gen/"); i >= 0 {
				l = l[i:]
			}
			return l
		}
	}
	return "unknown"
}

func replay(c *fw.Ctx, kind string, data json.RawMessage) string {
	if kind == "race" {
		_, msg := racePass(c)
		return msg
	}
	var sc scase
	if err := json.Unmarshal(data, &sc); err != nil {
		return "bad case: " + err.Error()
	}
	soloNondet = ""
	p := prepare(sc.Scenario)
	if soloNondet != "" {
		return soloNondet
	}
	var outs []outcome
	e := p.explorer(&outs)
	p.reset()
	x := sched.Run(e.Bodies(), sc.Choices, e.Horizon)
	if x.Diverged != "" {
		return "replay diverged: " + x.Diverged
	}
	e.Check(x)
	msgs := append(append([]string(nil), x.Violations...), x.Panics...)
	// determinism of the replay itself: run it a second time and compare
	p.reset()
	y := sched.Run(e.Bodies(), sc.Choices, e.Horizon)
	e.Check(y)
	if len(x.Points) != len(y.Points) || len(x.Violations) != len(y.Violations) {
		return "HARNESS: two replays of the same schedule observed different things"
	}
	return strings.Join(msgs, "\n")
}

// Main runs the check.
func Main() {
	// one P: the cooperative scheduler runs one goroutine at a time anyway,
	// and per-P runtime state (sync.Pool caches) then behaves the same in the
	// exploring process and in the fresh replay processes
	runtime.GOMAXPROCS(1)
	fw.Main(fw.Spec{
		ID:    "C13",
		Level: "model_checking",
		Rule: "stateless (CHESS-style) exploration on the real code: 2-3 independent writer/reader instances (mini and flat3 writers, a second mini writer sharing the generated package's pool, a mini reader; snappy, uncompressed, gzip), one goroutine each under a cooperative scheduler with scheduling points at every pool Get/Put, every ByteBuffer method and every sink/source call; pool Get is also a data choice (any pooled buffer or a fresh one). " +
			"All executions with <= b deviations (preemptions + non-default pool answers) are enumerated by DFS over choice prefixes, for each pool mode (reuse / reuse+poison-on-Put) and each prior pool content in {empty, cap 0, cap 64, cap 4096, {64,4096}, {64,64}} (poison-filled). Oracle: each instance's bytes/rows equal its solo run on an ideal pool (every Get fresh); shim monitors: no use after Put, no double Put; no panic. " +
			"states/transitions = choice points visited; schedules = complete executions. Separately: a free-running -race pass of the same bodies with the real pool (sampled schedules, precise) for the data-race clause",
		Assumptions: []string{
			"scheduling points at pool/buffer/sink/source operations suffice because instances share no other mutable state (only the two package-level pools); direct accesses to ByteBuffer.B cannot be hooked and are covered by poison-on-Put plus the race pass",
			"the data-race clause is decided by the race detector on free-running schedules (dynamic, not exhaustive): a cooperative scheduler cannot observe races",
			"Go memory-model effects beyond sequential consistency are not modelled",
		},
		Run:            run,
		Replay:         replay,
		QuickBudget:    240 * time.Second,
		ThoroughBudget: 80 * time.Minute,
	})
}
