// Package c18: files outside the supported subset are refused, not misread.
// One unsupported feature at every (column, row group, page position) of
// otherwise valid foreign files.
package c18

import (
	"bytes"
	"encoding/json"
	"fmt"
	"time"

	"verif/mc/drive"
	"verif/mc/families"
	"verif/mc/fw"
	"verif/mc/refpq"
	"verif/mc/sut"
)

type ucase struct {
	Target  string          `json:"target"`
	Records json.RawMessage `json:"records"`
	Groups  []int           `json:"row_groups"`
	Codec   int             `json:"codec"`
	RG      int             `json:"rg"`
	Col     int             `json:"col"`
	Feature *refpq.Feature  `json:"feature"` // nil = the base file (must be accepted)
}

func build(t *sut.Target, recs []refpq.Val, sizes []int, codec int, rg, col int, feat *refpq.Feature) ([]byte, error) {
	var groups [][]refpq.Val
	p := 0
	for _, n := range sizes {
		groups = append(groups, recs[p:p+n])
		p += n
	}
	plan := refpq.FilePlan{RowGroups: groups, Chunk: func(g, c int) refpq.ChunkPlan {
		cp := refpq.ChunkPlan{Codec: codec, Stats: 1}
		n := sizes[g]
		if n >= 2 {
			cp.Splits = []int{n / 2, n - n/2}
		}
		if feat != nil && g == rg && c == col {
			cp.Feature = feat
		}
		return cp
	}}
	return refpq.WriteForeign(t.Schema(), plan)
}

// judge returns a violation message; accept=true means the file must be read correctly.
func judge(t *sut.Target, recs []refpq.Val, file []byte, accept bool) string {
	rr := drive.ReadAll(t, bytes.NewReader(file), len(recs)+8)
	if rr.Panic != "" {
		return "panic: " + rr.Panic
	}
	if accept {
		if rr.OpenErr != nil {
			return "a supported file is rejected: " + rr.OpenErr.Error()
		}
		if rr.Err != nil {
			return "a supported file is rejected: " + rr.Err.Error()
		}
		if d := drive.CompareRecords(t.Schema(), recs, rr.Snap); d != "" {
			return "a supported file is misread: " + d
		}
		return ""
	}
	if rr.OpenErr != nil || rr.Err != nil {
		return ""
	}
	same := drive.CompareRecords(t.Schema(), recs, rr.Snap) == ""
	return fmt.Sprintf("no error reported (constructor ok, Error()==nil): %d rows delivered as if the file were PLAIN v1 data (rows equal to the logical content: %v)", len(rr.Recs), same)
}

type feat struct {
	f       refpq.Feature
	applies func(l *refpq.Node) bool
	accept  bool // negative control: must be accepted
}

func features() []feat {
	any := func(*refpq.Node) bool { return true }
	hasDef := func(l *refpq.Node) bool { return l.DefLevel > 0 }
	noDef := func(l *refpq.Node) bool { return l.DefLevel == 0 }
	hasRep := func(l *refpq.Node) bool { return l.RepLevel > 0 }
	noRep := func(l *refpq.Node) bool { return l.RepLevel == 0 }
	isBool := func(l *refpq.Node) bool { return l.Phys == refpq.PBoolean }
	var out []feat
	out = append(out,
		feat{refpq.Feature{Kind: "dict-page", Arg: refpq.EncPlainDictionary, Genuine: true}, any, false},
		feat{refpq.Feature{Kind: "dict-page", Arg: refpq.EncRLEDictionary, Genuine: true}, any, false},
		feat{refpq.Feature{Kind: "index-page"}, any, false},
		feat{refpq.Feature{Kind: "v2-page", Genuine: true}, any, false},
		feat{refpq.Feature{Kind: "def-bitpacked", Genuine: true}, hasDef, false},
		feat{refpq.Feature{Kind: "rep-bitpacked", Genuine: true}, hasRep, false},
		// negative controls: a BIT_PACKED label on a column without such levels is legal
		feat{refpq.Feature{Kind: "def-bitpacked"}, noDef, true},
		feat{refpq.Feature{Kind: "rep-bitpacked"}, noRep, true},
	)
	for _, e := range []int{refpq.EncPlainDictionary, refpq.EncBitPacked, refpq.EncDeltaBinary, refpq.EncDeltaLenBA, refpq.EncDeltaBA, refpq.EncRLEDictionary, refpq.EncByteStreamSplit} {
		out = append(out, feat{refpq.Feature{Kind: "value-encoding", Arg: e}, any, false})
		out = append(out, feat{refpq.Feature{Kind: "value-encoding", Arg: e, Genuine: true}, any, false})
	}
	out = append(out, feat{refpq.Feature{Kind: "value-encoding", Arg: refpq.EncRLE, Genuine: true}, isBool, false})
	out = append(out, feat{refpq.Feature{Kind: "value-encoding", Arg: refpq.EncRLE}, any, false})
	for _, cd := range []int{3, 4, 5, 6, 7} { // LZO, BROTLI, LZ4, ZSTD, LZ4_RAW
		out = append(out, feat{refpq.Feature{Kind: "codec", Arg: cd}, any, false})
	}
	return out
}

func run(c *fw.Ctx) {
	targets := []string{"mini", "person"}
	if c.Thorough() {
		// thorough adds more shapes when they were generated for this check
		for _, n := range []string{"document", "flat3"} {
			if sut.Has(n) {
				targets = append(targets, n)
			}
		}
	}
	feats := features()
	c.Bound("features", len(feats))
	for _, tn := range targets {
		t := sut.Get(tn)
		recs := families.MixedRecords(t, 6)
		small := recs
		// make sure the first records have non-empty lists / non-null values so that features bite
		leaves := t.Schema().Leaves()
		// row-group layouts: two row groups; three with one that has no rows
		// (legal, emitted by some writers) before the last
		layouts := [][]int{{4, 2}, {3, 0, 3}}
		if tn != "mini" && !c.Thorough() {
			layouts = layouts[:1]
		}
		if tn == "mini" {
			// pages of more than 64 KiB / 96 KiB / 128 KiB (two pages of 35 000 int32 ids: 140 KB each,
			// int64 opts: 280 KB): a size-dependent read path must vet pages too
			layouts = append(layouts, []int{70000})
		}
		for li, sizes := range layouts {
			lt := ""
			if li > 0 {
				lt = fmt.Sprintf("|layout%v", sizes)
			}
			recs = small
			if sizes[0] > 100 {
				recs = families.DenseRecords(t, sizes[0])
			}
			for codec := 0; codec <= 2; codec++ {
				if sizes[0] > 100 && codec == 2 && !c.Thorough() {
					continue // big pages: uncompressed and snappy in quick
				}
				base, err := build(t, recs, sizes, codec, 0, 0, nil)
				if err != nil {
					panic(err)
				}
				if pf, err := refpq.ParseFile(base, refpq.ParseOptions{AllowEmptyRowGroups: true}); err != nil || len(pf.Problems) > 0 {
					panic(fmt.Sprintf("C18 self-check: base file invalid: %v %v", err, pf))
				}
				if c.MineKey(fmt.Sprintf("%s|%d|base%s", tn, codec, lt)) {
					c.Eval()
					c.Distinct(fmt.Sprintf("%s|%d|base%s", tn, codec, lt))
					if msg := judge(t, recs, base, true); msg != "" {
						// not a C18 matter (that is C04's): but with the controls
						// rejected, "every unsupported file is refused" is vacuous
						c.Count("controls_not_accepted", 1)
						c.Note("control: the valid base file %s codec %d is not read correctly (%s); C18's verdicts on this target are vacuous - see C04", tn, codec, classify(msg))
					} else {
						c.Count("controls_accepted", 1)
					}
				}
				for gi := range sizes {
					if sizes[gi] == 0 {
						continue // no page to carry a feature
					}
					for ci, leaf := range leaves {
						for fi, ft := range feats {
							if !ft.applies(leaf) {
								continue
							}
							for page := 0; page < 2; page++ {
								if ft.f.Kind == "codec" && page > 0 {
									continue
								}
								if !c.Mine() {
									continue
								}
								f := ft.f
								f.Page = page
								uc := ucase{tn, refpq.RecsToJSON(t.Schema(), recs), sizes, codec, gi, ci, &f}
								c.Eval()
								c.Distinct(fmt.Sprintf("%s|%d|%d|%d|%d|%d%s", tn, codec, gi, ci, fi, page, lt))
								c.Guard("unsupported", uc)
								file, err := build(t, recs, sizes, codec, gi, ci, &f)
								if err != nil {
									panic(err)
								}
								if c.WantSample() && c.Shard == 1 {
									c.Sample(map[string]interface{}{"target": tn, "codec": codec, "rg": gi, "column": leaf.PathKey(), "feature": f})
								}
								if ft.accept {
									// negative control (a BIT_PACKED label on a column without
									// such levels is legal): whether the reader accepts it is
									// C04's business, here it only shows that the refusals
									// above are not blanket refusals
									if msg := judge(t, recs, file, true); msg != "" {
										c.Count("controls_not_accepted", 1)
										c.Note("control: a BIT_PACKED level-encoding label on a column without such levels is not accepted (%s)", classify(msg))
									} else {
										c.Count("controls_accepted", 1)
									}
									continue
								}
								if msg := judge(t, recs, file, ft.accept); msg != "" {
									key := fmt.Sprintf("%s|%s:%d:genuine=%v|%s", columnClass(leaf), f.Kind, f.Arg, f.Genuine, classify(msg))
									c.Violate(key, msg+fmt.Sprintf("\ntarget %s codec %d row group %d column %s page %d feature %+v", tn, codec, gi, leaf.PathKey(), page, f), "unsupported", uc)
								}
							}
						}
					}
				}
			}
		}
	}
}

func columnClass(l *refpq.Node) string {
	switch {
	case l.RepLevel > 0:
		return "repeated"
	case l.DefLevel > 0:
		return "optional"
	}
	return "required"
}

func classify(msg string) string {
	out := []rune{}
	for _, ch := range msg {
		if ch == '(' || ch == '\n' || ch == ':' {
			break
		}
		if ch >= '0' && ch <= '9' {
			ch = '#'
		}
		out = append(out, ch)
	}
	return string(out)
}

func replay(c *fw.Ctx, kind string, data json.RawMessage) string {
	var uc ucase
	if err := json.Unmarshal(data, &uc); err != nil {
		return "bad case: " + err.Error()
	}
	t := sut.Get(uc.Target)
	recs, err := refpq.RecsFromJSON(t.Schema(), uc.Records)
	if err != nil {
		return err.Error()
	}
	file, err := build(t, recs, uc.Groups, uc.Codec, uc.RG, uc.Col, uc.Feature)
	if err != nil {
		return "harness: " + err.Error()
	}
	accept := uc.Feature == nil
	if uc.Feature != nil {
		leaf := t.Schema().Leaves()[uc.Col]
		if (uc.Feature.Kind == "def-bitpacked" && leaf.DefLevel == 0) || (uc.Feature.Kind == "rep-bitpacked" && leaf.RepLevel == 0) {
			accept = true
		}
	}
	return judge(t, recs, file, accept)
}

// Main runs the check.
func Main() {
	fw.Main(fw.Spec{
		ID:    "C18",
		Level: "exploration",
		Rule: "valid foreign base files (mini, person [+document, flat3 in thorough]; 2 row groups, and 3 row groups of which the middle one has no rows; 2 pages per chunk; 3 codecs) in which one chunk, at every (row group, column, page position), carries one feature out of: dictionary page + PLAIN_DICTIONARY/RLE_DICTIONARY data page (genuinely encoded), index page, data page v2 (genuinely encoded), " +
			"value encoding in {PLAIN_DICTIONARY, RLE, BIT_PACKED, DELTA_BINARY_PACKED, DELTA_LENGTH_BYTE_ARRAY, DELTA_BYTE_ARRAY, RLE_DICTIONARY, BYTE_STREAM_SPLIT} (payload genuinely re-encoded where simple, and PLAIN bytes under the foreign label), BIT_PACKED definition/repetition levels on columns that have them (genuinely MSB-first packed), codec in {LZO, BROTLI, LZ4, ZSTD, LZ4_RAW}. " +
			"Oracle: constructor error or Error() non-nil; never rows with nil error; no panic. Controls (counted in the evidence, not violations of this property): the base files and a BIT_PACKED level-encoding label on columns without such levels are read correctly",
		Assumptions: []string{
			"one unsupported feature per file",
			"delta encodings are not genuinely implemented by the foreign writer: their payload is the PLAIN bytes under the foreign label (the worst case for 'misread as PLAIN')",
		},
		Run:            run,
		Replay:         replay,
		QuickBudget:    100 * time.Second,
		ThoroughBudget: 20 * time.Minute,
		MemLimitMB:     4096,
	})
}
