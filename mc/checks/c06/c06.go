// Package c06: every Add/Write/Close history gives one row group per
// non-empty batch.  Explicit-state exploration of the writer's API: every
// sequence over {Add, Write} up to a length bound, Close applied at every
// node, for every page size 1..k and codec, against a list-of-batches model.
package c06

import (
	"bytes"
	"encoding/json"
	"fmt"
	"strings"
	"time"

	"verif/mc/drive"
	"verif/mc/fw"
	"verif/mc/gen"
	"verif/mc/oracle"
	"verif/mc/refpq"
	"verif/mc/sut"
)

type hcase struct {
	Target  string `json:"target"`
	History string `json:"history"` // 'A' = Add(next record), 'W' = Write; Close is implied at the end
	Page    int    `json:"page_size"`
	Codec   int    `json:"codec"`
}

var alphaCache = map[string][]refpq.Val{}

func structs(t *sut.Target) []refpq.Val {
	if a, ok := alphaCache[t.Name]; ok {
		return a
	}
	all := gen.Structures(t.Schema(), 4, 2)
	// a rotating selection of structurally different records
	var out []refpq.Val
	step := len(all)/7 + 1
	for i := 0; i < len(all); i += step {
		out = append(out, all[i])
	}
	out = append(out, all[len(all)-1])
	alphaCache[t.Name] = out
	return out
}

// runHistory executes one history on a fresh writer and checks it against the
// list-of-batches model.
func runHistory(hc hcase) []oracle.Failure {
	t := sut.Get(hc.Target)
	alpha := structs(t)
	f := &gen.Filler{}
	var batches [][]refpq.Val // written batches incl. empty ones
	var cur []refpq.Val
	var all []refpq.Val
	var buf bytes.Buffer
	var err error
	var where string
	pmsg := fw.Protect(func() {
		var w sut.Writer
		w, err = t.NewWriter(&buf, hc.Page, sut.Codec(hc.Codec))
		if err != nil {
			where = "NewParquetWriter"
			return
		}
		n := 0
		for i, op := range hc.History {
			switch op {
			case 'A':
				rec := gen.Fill(t.Schema(), alpha[n%len(alpha)], f)
				n++
				g := gen.ToGo(t.Schema(), t.Type, rec)
				w.Add(g)
				drive.Scramble(g)
				cur = append(cur, rec)
			case 'W':
				if err = w.Write(); err != nil {
					where = fmt.Sprintf("Write (op %d)", i)
					return
				}
				batches = append(batches, cur)
				cur = nil
			}
		}
		if err = w.Close(); err != nil {
			where = "Close"
		}
	})
	if pmsg != "" {
		return []oracle.Failure{{Class: "panic", Code: "write", Msg: pmsg}}
	}
	if err != nil {
		return []oracle.Failure{{Class: "write-error", Code: where, Msg: err.Error()}}
	}
	var sizes []int
	for _, b := range batches {
		sizes = append(sizes, len(b))
		all = append(all, b...)
	}
	file := buf.Bytes()
	var fails []oracle.Failure
	// the file is valid, has one row group per non-empty batch with exactly
	// those rows (footer counts), and its columns are the written records
	fails = append(fails, oracle.CheckFile(t, file, all, sizes, hc.Page, sut.Codec(hc.Codec), oracle.Valid|oracle.Striping)...)
	// per row group: exactly the records of that batch (reference decode)
	if pf, perr := refpq.ParseFile(file, refpq.ParseOptions{}); perr == nil && refpq.SameSchema(t.Schema(), pf.Schema) == "" {
		gi := 0
		for _, b := range batches {
			if len(b) == 0 {
				continue
			}
			if gi >= len(pf.RowGroups) {
				break
			}
			got, aerr := refpq.Assemble(pf.Schema, pf.RowGroupColumns(gi))
			if aerr != nil {
				fails = append(fails, oracle.Failure{Class: "rowgroup", Code: "assemble", Msg: fmt.Sprintf("row group %d: %v", gi, aerr)})
			} else if d := drive.CompareRecords(t.Schema(), b, got); d != "" {
				fails = append(fails, oracle.Failure{Class: "rowgroup", Code: "records", Msg: fmt.Sprintf("row group %d does not hold its batch: %s", gi, d)})
			}
			gi++
		}
	}
	// the generated reader returns exactly the written (non-pending) records
	fails = append(fails, oracle.CheckRoundTrip(t, file, all)...)
	return fails
}

func historyString(l int, x uint32) string {
	var sb strings.Builder
	for i := 0; i < l; i++ {
		if x>>uint(i)&1 == 1 {
			sb.WriteByte('W')
		} else {
			sb.WriteByte('A')
		}
	}
	return sb.String()
}

func run(c *fw.Ctx) {
	type cfg struct {
		target string
		maxL   int
		pages  []int
		codecs []int
	}
	var cfgs []cfg
	if c.Thorough() {
		cfgs = []cfg{
			{"mini", 16, []int{1, 2, 3, 4, 5}, []int{0, 1}},
			{"mini", 9, []int{1, 2, 3}, []int{2}},
			{"flat3", 14, []int{1, 2, 3, 4, 5}, []int{0, 1}},
			{"person", 11, []int{1, 2, 3, 4}, []int{0, 1}},
			{"one", 12, []int{1, 2, 3}, []int{0, 1, 2}},
			{"oneopt", 12, []int{1, 2, 3}, []int{0, 1}},
			{"onerep", 12, []int{1, 2, 3}, []int{0, 1}},
			{"rbool", 18, []int{8, 16}, []int{1}},
		}
	} else {
		cfgs = []cfg{
			{"mini", 12, []int{1, 2, 3, 4}, []int{0, 1}},
			{"mini", 6, []int{1, 2, 3}, []int{2}},
			{"flat3", 10, []int{1, 2, 3, 4}, []int{0, 1}},
			{"person", 7, []int{1, 2, 3}, []int{1}},
			{"one", 8, []int{1, 2, 3}, []int{0, 1, 2}},
			{"oneopt", 8, []int{1, 2}, []int{0, 1}},
			{"onerep", 8, []int{1, 2}, []int{1}},
			{"rbool", 11, []int{7, 8}, []int{1}},
		}
	}
	var bd []string
	for _, g := range cfgs {
		bd = append(bd, fmt.Sprintf("%s: L<=%d pages=%v codecs=%v", g.target, g.maxL, g.pages, g.codecs))
	}
	c.Bound("configs", bd)
	// a few long histories around the default page size (1000 records): the
	// enumerated histories above stay far below it
	for _, tn := range []string{"mini", "one", "rbool"} {
		if !sut.Has(tn) {
			continue
		}
		for hi, h := range []string{
			strings.Repeat("A", 1000) + "W",
			strings.Repeat("A", 999) + "WAW",
			strings.Repeat("A", 1001) + "W" + strings.Repeat("A", 1000) + "W",
			strings.Repeat("A", 2000) + "WA",
			strings.Repeat("A", 1000) + "W" + strings.Repeat("A", 1000) + "W" + strings.Repeat("A", 7) + "W",
		} {
			for _, page := range []int{0, 500} {
				if !c.Mine() {
					continue
				}
				hc := hcase{tn, h, page, 1}
				c.Eval()
				c.Count("states", 1)
				c.Count("traces_validated_against_impl", 1)
				c.Distinct(fmt.Sprintf("%s|long%d|%d", tn, hi, page))
				for _, f := range runHistory(hc) {
					c.Violate(fmt.Sprintf("%s|%s|%s|long history", tn, f.Class, f.Code), f.String()+fmt.Sprintf("\nhistory of %d operations (long history %d) page=%d codec=1", len(h), hi, page), "history", hc)
				}
			}
		}
	}
	for _, g := range cfgs {
		for l := 0; l <= g.maxL; l++ {
			for x := uint32(0); x < 1<<uint(l); x++ {
				if !c.Mine() {
					continue
				}
				if x&31 == 0 && c.Expired() {
					c.Capped(fmt.Sprintf("time budget hit at history length %d (%s)", l, g.target))
					return
				}
				h := historyString(l, x)
				// states = histories (the abstract state of a history is the
				// tuple of written batch sizes plus the pending count, which
				// identifies the history up to nothing)
				c.Count("states", 1)
				if l > 0 {
					c.Count("transitions", 1)
				}
				for _, page := range g.pages {
					for _, cd := range g.codecs {
						hc := hcase{g.target, h, page, cd}
						c.Eval()
						c.Count("traces_validated_against_impl", 1)
						c.Distinct(fmt.Sprintf("%s|%s|%d|%d", g.target, h, page, cd))
						if c.WantSample() && (x%97 == 3 || l < 2) {
							c.Sample(hc)
						}
						for _, f := range runHistory(hc) {
							// one key per (class, code, shape of the history)
							c.Violate(fmt.Sprintf("%s|%s|%s|%s", g.target, f.Class, f.Code, historyClass(h)), f.String()+fmt.Sprintf("\nhistory=%q page=%d codec=%d", h, page, cd), "history", hc)
						}
					}
				}
			}
		}
	}
}

// historyClass abstracts a history to what distinguishes the documented
// corner cases: whether it contains a Write with nothing pending and whether
// records are pending at Close.
func historyClass(h string) string {
	emptyWrite := strings.HasPrefix(h, "W") || strings.Contains(h, "WW")
	pending := strings.HasSuffix(h, "A")
	return fmt.Sprintf("emptyWrite=%v,pendingAtClose=%v", emptyWrite, pending)
}

func replay(c *fw.Ctx, kind string, data json.RawMessage) string {
	var hc hcase
	if err := json.Unmarshal(data, &hc); err != nil {
		return "bad case: " + err.Error()
	}
	fails := runHistory(hc)
	if len(fails) == 0 {
		return ""
	}
	return fmt.Sprint(fails)
}

// Main runs the check.
func Main() {
	fw.Main(fw.Spec{
		ID:    "C06",
		Level: "model_checking",
		Rule: "explicit-state exploration of the writer API on the real generated writer: every history over {Add(next distinct record), Write} of length <= L (a state is a history; successor = replay on a fresh writer + one op), Close applied at every state, x page sizes x codecs, plus five long histories around the default page size of 1000 records. " +
			"Oracle = list-of-batches model: file valid; one row group per non-empty batch, in order, holding exactly that batch (reference decode per row group and generated reader overall); footer row counts = rows stored; pending records absent. distinct = (target, history, page size, codec)",
		Assumptions: []string{
			"histories longer than L and page sizes above the listed ones are not explored; records rotate through 8 structurally different shapes with position-unique leaf values so loss, duplication and reordering are observable",
			"every explored trace is executed on the implementation (traces_validated_against_impl = evaluations)",
		},
		Run:            run,
		Replay:         replay,
		QuickBudget:    100 * time.Second,
		ThoroughBudget: 30 * time.Minute,
	})
}
