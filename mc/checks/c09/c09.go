// Package c09: a failed write to the destination is always reported.
// Exhaustive over the index k of the failing sink Write call, for three fault
// kinds, for every workload and codec (pairs of transient faults in thorough).
package c09

import (
	"encoding/json"
	"fmt"
	"strings"
	"time"

	"verif/mc/env"
	"verif/mc/families"
	"verif/mc/fw"
	"verif/mc/oracle"
	"verif/mc/refpq"
	"verif/mc/sut"
)

type wcase struct {
	Target  string       `json:"target"`
	History string       `json:"history"` // A = Add(next record), W = Write; Close implied
	Page    int          `json:"page_size"`
	Codec   int          `json:"codec"`
	Plan    env.SinkPlan `json:"sink_plan"`
}

// runHistory drives the writer over the sink and reports a violation message.
// It also returns the number of sink calls made.
func runHistory(wc wcase) (string, int) {
	t := sut.Get(wc.Target)
	var recs []interface{}
	if wc.Target == "tailstr" {
		// one page of more than 16 MiB and 2^24 bytes: 280 strings of 64 KiB
		recs = hugeRecs(t, len(wc.History))
	} else {
		recs = oracle.GoRecs(t, families.MixedRecords(t, len(wc.History)))
	}
	sink := &env.Sink{Plan: wc.Plan}
	msg := ""
	p := fw.Protect(func() {
		// every API call: if a fault fired during the call, it must return an error
		check := func(call string, before int, err error) bool {
			if sink.Fired > before && err == nil {
				msg = fmt.Sprintf("%s returned nil although sink Write call(s) failed during it (sink calls so far %d)", call, sink.Calls)
				return false
			}
			return err == nil
		}
		before := sink.Fired
		w, err := t.NewWriter(sink, wc.Page, sut.Codec(wc.Codec))
		if !check("NewParquetWriter", before, err) {
			return
		}
		n := 0
		for i, op := range wc.History {
			switch op {
			case 'A':
				w.Add(recs[n])
				n++
			case 'W':
				before = sink.Fired
				err = w.Write()
				if !check(fmt.Sprintf("Write (op %d)", i), before, err) {
					return
				}
			}
		}
		before = sink.Fired
		err = w.Close()
		check("Close", before, err)
	})
	if p != "" {
		return "panic: " + p, sink.Calls
	}
	return msg, sink.Calls
}

var hugeCache []interface{}

func hugeRecs(t *sut.Target, n int) []interface{} {
	if len(hugeCache) < n {
		vals := make([]refpq.Val, n)
		for i := range vals {
			vals[i] = refpq.Val{Group: []refpq.Val{{Leaf: int32(i + 1)}, {Leaf: strings.Repeat(string(rune('a'+i%26)), 65536+i)}}}
		}
		hugeCache = oracle.GoRecs(t, vals)
	}
	return hugeCache[:n]
}

func run(c *fw.Ctx) {
	type wl struct {
		target, history string
		page            int
	}
	wls := []wl{
		{"mini", "AAAWAAAW", 2},
		{"mini", "WAAWWAW", 1}, // with Writes while nothing is pending
		{"mini", "AAWAA", 2},   // records pending at Close
		{"person", "AAAWAAAW", 2},
		{"person", "AAW", 0},
		{"tailstr", strings.Repeat("A", 280) + "W", 0}, // a page body of 18 MB
	}
	// every Add/Write history up to a length bound on the narrow shape
	maxL := 5
	if c.Thorough() {
		maxL = 8
	}
	for l := 1; l <= maxL; l++ {
		for x := 0; x < 1<<uint(l); x++ {
			h := make([]byte, l)
			for i := range h {
				if x>>uint(i)&1 == 1 {
					h[i] = 'W'
				} else {
					h[i] = 'A'
				}
			}
			for _, page := range []int{1, 2} {
				wls = append(wls, wl{"mini", string(h), page})
			}
		}
	}
	c.Bound("history_enumeration", fmt.Sprintf("every Add/Write history of length <= %d on mini, page sizes 1 and 2, plus the fixed workloads", maxL))
	var bd []string
	for _, w := range wls[:6] {
		bd = append(bd, fmt.Sprintf("%s %q page=%d", w.target, w.history, w.page))
	}
	c.Bound("workloads", bd)
	for wi, w := range wls {
		for cd := 0; cd < 3; cd++ {
			if wi >= 6 && cd == 2 && !c.Thorough() {
				continue // enumerated histories: gzip in thorough only
			}
			base := wcase{w.target, w.history, w.page, cd, env.SinkPlan{FailAt: -1, FailAt2: -1}}
			msg, K := runHistory(base)
			if msg != "" {
				c.Violate("baseline|"+w.target, "fault-free run fails: "+msg, "sink", base)
				continue
			}
			try := func(tag string, plan env.SinkPlan) {
				if !c.Mine() {
					return
				}
				c.Eval()
				wc := base
				wc.Plan = plan
				c.Distinct(fmt.Sprintf("%s|%s|%d|%d|%s", w.target, w.history, w.page, cd, tag))
				if c.WantSample() && c.Shard == 0 {
					c.Sample(wc)
				}
				if msg, _ := runHistory(wc); msg != "" {
					c.Violate(fmt.Sprintf("%s|%s", w.target, classify(msg)), msg+fmt.Sprintf("\nworkload %s %q page=%d codec=%d plan=%+v (fault-free run makes %d sink calls)", w.target, w.history, w.page, cd, plan, K), "sink", wc)
				}
			}
			for k := 0; k < K; k++ {
				try(fmt.Sprintf("k%d|transient", k), env.SinkPlan{FailAt: k, FailAt2: -1})
				try(fmt.Sprintf("k%d|sticky", k), env.SinkPlan{FailAt: k, FailAt2: -1, Sticky: true})
				try(fmt.Sprintf("k%d|partial", k), env.SinkPlan{FailAt: k, FailAt2: -1, Partial: true})
				try(fmt.Sprintf("k%d|partial-sticky", k), env.SinkPlan{FailAt: k, FailAt2: -1, Partial: true, Sticky: true})
				try(fmt.Sprintf("k%d|full", k), env.SinkPlan{FailAt: k, FailAt2: -1, Full: true})
				try(fmt.Sprintf("k%d|full-sticky", k), env.SinkPlan{FailAt: k, FailAt2: -1, Full: true, Sticky: true})
				if c.Thorough() {
					for k2 := k + 1; k2 < K; k2++ {
						try(fmt.Sprintf("k%d|k%d", k, k2), env.SinkPlan{FailAt: k, FailAt2: k2})
					}
				}
			}
			c.Count("sink_calls_enumerated", int64(K))
		}
	}
}

func classify(msg string) string {
	out := []rune{}
	for _, ch := range msg {
		if ch == '(' || ch == '\n' {
			break
		}
		if ch >= '0' && ch <= '9' {
			ch = '#'
		}
		out = append(out, ch)
	}
	return string(out)
}

func replay(c *fw.Ctx, kind string, data json.RawMessage) string {
	var wc wcase
	if err := json.Unmarshal(data, &wc); err != nil {
		return "bad case: " + err.Error()
	}
	msg, _ := runHistory(wc)
	return msg
}

// Main runs the check.
func Main() {
	fw.Main(fw.Spec{
		ID:    "C09",
		Level: "fault_enumeration",
		Rule: "for every workload (5 fixed Add/Write/Close histories on mini and person incl. empty Writes and pending records, plus every Add/Write history up to a length bound on mini with page sizes 1 and 2) x codecs, the fault-free run's K sink Write calls are counted and for every k < K the k-th call fails as (0, err) transient, (0, err) sticky, (n/2, err) transient, (n/2, err) sticky; thorough adds every pair of transient faults. " +
			"Oracle: the API call during which a sink failure occurred returns a non-nil error; no panic. distinct = (workload, codec, plan)",
		Assumptions: []string{
			"the caller stops using the writer after the first error it is given (the history is abandoned there)",
			"(n, nil) with n < len(p) - a sink violating the io.Writer contract - is not modelled",
		},
		Run:            run,
		Replay:         replay,
		QuickBudget:    100 * time.Second,
		ThoroughBudget: 20 * time.Minute,
	})
}
