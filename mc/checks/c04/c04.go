// Package c04: the reader decodes every conformant file of the supported
// subset.  An independent writer (refpq.WriteForeign) produces, for fixed
// logical content, every legal physical encoding in a plan space bounded by
// the number of simultaneous deviations from a baseline plan.
package c04

import (
	"bytes"
	"encoding/json"
	"fmt"
	"time"

	"verif/mc/drive"
	"verif/mc/families"
	"verif/mc/fw"
	"verif/mc/gen"
	"verif/mc/refpq"
	"verif/mc/sut"
)

// Dev is one deviation from the baseline plan.
type Dev struct {
	Kind   string          `json:"kind"` // levels | splits | codec | snappy | stats | chunkopt | fileopt
	RG     int             `json:"rg"`
	Col    int             `json:"col"`
	Page   int             `json:"page"`
	Which  string          `json:"which,omitempty"` // rep | def
	Plan   []refpq.RunSpec `json:"plan,omitempty"`
	Splits []int           `json:"splits,omitempty"`
	Arg    int             `json:"arg,omitempty"`
	Name   string          `json:"name,omitempty"`
}

type fcase struct {
	Target  string          `json:"target"`
	Records json.RawMessage `json:"records"`
	Groups  []int           `json:"row_groups"`
	Devs    []Dev           `json:"deviations"`
}

func buildPlan(groups [][]refpq.Val, devs []Dev) refpq.FilePlan {
	plan := refpq.FilePlan{RowGroups: groups}
	for _, d := range devs {
		if d.Kind == "fileopt" {
			switch d.Name {
			case "created_by":
				plan.CreatedBy = "foreign writer version 1.0 (build abc)"
			case "key_value":
				plan.KeyValue = true
			case "column_orders":
				plan.ColumnOrder = true
			case "utf8":
				plan.UTF8 = true
			case "root_name":
				plan.RootName = "schema"
			case "unknown_ids":
				plan.UnknownIDs = true
			case "version2":
				plan.Version = 2
			case "sorting_columns":
				plan.SortingCols = true
			}
		}
	}
	plan.Chunk = func(rg, col int) refpq.ChunkPlan {
		cp := refpq.ChunkPlan{Codec: refpq.CodecSnappy, Stats: 1}
		for _, d := range devs {
			if d.Kind == "fileopt" {
				continue
			}
			if d.Kind == "chunkopt-all" {
				applyChunkOpt(&cp, d.Name)
				continue
			}
			if d.RG != rg || d.Col != col {
				continue
			}
			switch d.Kind {
			case "levels":
				m := map[int][]refpq.RunSpec{d.Page: d.Plan}
				if d.Which == "rep" {
					cp.RepPlan = m
				} else {
					cp.DefPlan = m
				}
			case "splits":
				cp.Splits = d.Splits
			case "codec":
				cp.Codec = d.Arg
			case "snappy":
				cp.SnappyMode = d.Arg
			case "stats":
				cp.Stats = d.Arg
			case "chunkopt":
				applyChunkOpt(&cp, d.Name)
			}
		}
		return cp
	}
	return plan
}

func applyChunkOpt(cp *refpq.ChunkPlan, name string) {
	switch name {
	case "crc":
		cp.CRC = true
	case "file_offset_zero":
		cp.FileOffsetZero = true
	case "encoding_stats":
		cp.EncodingStats = true
	case "chunk_statistics":
		cp.ChunkStatistics = true
	case "encodings_with_rle":
		cp.EncodingsWithRLE = true
	case "chunk_key_value":
		cp.KeyValue = true
	case "bitpacked_labels_without_levels":
		cp.BitPackedLabels = true
	}
}

// judge writes the foreign file, self-checks it with the reference parser
// and feeds it to the generated reader.
func judge(t *sut.Target, recs []refpq.Val, sizes []int, devs []Dev) (msg string, selfErr string) {
	var groups [][]refpq.Val
	p := 0
	for _, n := range sizes {
		groups = append(groups, recs[p:p+n])
		p += n
	}
	file, err := refpq.WriteForeign(t.Schema(), buildPlan(groups, devs))
	if err != nil {
		return "", "foreign writer: " + err.Error()
	}
	pf, err := refpq.ParseFile(file, refpq.ParseOptions{AllowEmptyRowGroups: true})
	if err != nil {
		return "", "foreign file unparseable by the reference: " + err.Error()
	}
	if len(pf.Problems) > 0 {
		return "", fmt.Sprintf("foreign file not valid per the reference: %v", pf.Problems)
	}
	back, err := refpq.Assemble(pf.Schema, pf.Columns())
	if err != nil {
		return "", "reference cannot reassemble its own file: " + err.Error()
	}
	if d := drive.CompareRecords(t.Schema(), recs, back); d != "" {
		return "", "reference reads its own file differently: " + d
	}
	rr := drive.ReadAll(t, bytes.NewReader(file), len(recs)+8)
	switch {
	case rr.Panic != "":
		return "panic: " + rr.Panic, ""
	case rr.OpenErr != nil:
		return "NewParquetReader rejects a conformant file: " + rr.OpenErr.Error(), ""
	case rr.Err != nil:
		return "Error() on a conformant file: " + rr.Err.Error(), ""
	}
	if rr.Rows != int64(len(recs)) {
		return fmt.Sprintf("Rows() = %d, the file holds %d", rr.Rows, len(recs)), ""
	}
	if d := drive.CompareRecords(t.Schema(), recs, rr.Snap); d != "" {
		return "records differ: " + d, ""
	}
	return "", ""
}

type content struct {
	target string
	recs   []refpq.Val
	sizes  []int
}

func contents(c *fw.Ctx) []content {
	var out []content
	add := func(tn string, recs []refpq.Val, sizes []int) {
		out = append(out, content{tn, recs, sizes})
	}
	for _, tn := range []string{"mini", "flat3", "document", "person", "nestrep", "nest16"} {
		t := sut.Get(tn)
		add(tn, families.MixedRecords(t, 4), []int{4})
		add(tn, families.MixedRecords(t, 5), []int{3, 2})
	}
	// row groups without rows (legal; some writers emit them) before, between
	// and after row groups with rows
	for _, tn := range []string{"mini", "flat3"} {
		t := sut.Get(tn)
		add(tn, families.MixedRecords(t, 4), []int{2, 0, 2})
		add(tn, families.MixedRecords(t, 3), []int{0, 3})
		add(tn, families.MixedRecords(t, 3), []int{3, 0})
	}
	if c.Thorough() {
		t := sut.Get("document")
		all := gen.Structures(t.Schema(), 3, 2)
		f := &gen.Filler{}
		var recs []refpq.Val
		for i := 0; i < len(all); i += len(all)/5 + 1 {
			recs = append(recs, gen.Fill(t.Schema(), all[i], f))
		}
		add("document", recs, []int{len(recs)})
	}
	return out
}

func somePlans(vals []uint8, cap int) [][]refpq.RunSpec {
	var out [][]refpq.RunSpec
	refpq.AllPlans(vals, func(p []refpq.RunSpec) bool {
		out = append(out, p)
		return cap <= 0 || len(out) < cap
	})
	return out
}

// reducedPlans is a small representative subset used inside pairs.
func reducedPlans(vals []uint8) [][]refpq.RunSpec {
	n := len(vals)
	var out [][]refpq.RunSpec
	// all bit-packed in one run
	out = append(out, []refpq.RunSpec{{N: (n + 7) / 8}})
	// every value its own RLE run
	var single []refpq.RunSpec
	for range vals {
		single = append(single, refpq.RunSpec{RLE: true, N: 1})
	}
	out = append(out, single)
	// maximal RLE runs
	var maxr []refpq.RunSpec
	for i := 0; i < n; {
		j := i
		for j < n && vals[j] == vals[i] {
			j++
		}
		maxr = append(maxr, refpq.RunSpec{RLE: true, N: j - i})
		i = j
	}
	out = append(out, maxr)
	// bit-packed groups one run each
	if n > 8 {
		var bp []refpq.RunSpec
		for i := 0; i < n; i += 8 {
			bp = append(bp, refpq.RunSpec{N: 1})
		}
		out = append(out, bp)
	}
	return out
}

func subsetsOfBoundaries(n int) [][]int {
	// every way to cut n records into consecutive pages
	return gen.Compositions(n)
}

// singleDevs enumerates every single deviation for the content.
func singleDevs(t *sut.Target, ct content, planCap int, reduced bool) []Dev {
	var devs []Dev
	leaves := t.Schema().Leaves()
	p := 0
	for gi, n := range ct.sizes {
		recs := ct.recs[p : p+n]
		p += n
		if n == 0 {
			continue // a row group without rows has nothing to encode differently
		}
		cols := refpq.Stripe(t.Schema(), recs)
		for ci, col := range cols {
			leaf := leaves[ci]
			var reps, defs []uint8
			for _, e := range col.Entries {
				reps = append(reps, e.R)
				defs = append(defs, e.D)
			}
			// (a) level run segmentation
			if leaf.RepLevel > 0 {
				plans := somePlans(reps, planCap)
				if reduced {
					plans = reducedPlans(reps)
				}
				for _, pl := range plans {
					devs = append(devs, Dev{Kind: "levels", RG: gi, Col: ci, Which: "rep", Plan: pl})
				}
			}
			if leaf.DefLevel > 0 {
				plans := somePlans(defs, planCap)
				if reduced {
					plans = reducedPlans(defs)
				}
				for _, pl := range plans {
					devs = append(devs, Dev{Kind: "levels", RG: gi, Col: ci, Which: "def", Plan: pl})
				}
			}
			// (b) page boundaries
			for _, sp := range subsetsOfBoundaries(n) {
				if len(sp) == 1 {
					continue
				}
				if reduced && len(sp) != n && len(sp) != 2 {
					continue
				}
				devs = append(devs, Dev{Kind: "splits", RG: gi, Col: ci, Splits: sp})
			}
			// (c) codec per column
			for _, cd := range []int{refpq.CodecNone, refpq.CodecGzip} {
				devs = append(devs, Dev{Kind: "codec", RG: gi, Col: ci, Arg: cd})
			}
			// (d) snappy stream shape
			for mode := 1; mode <= 6; mode++ {
				devs = append(devs, Dev{Kind: "snappy", RG: gi, Col: ci, Arg: mode})
			}
			// (e) statistics variants
			for _, st := range []int{0, 2, 3, 4} {
				devs = append(devs, Dev{Kind: "stats", RG: gi, Col: ci, Arg: st})
			}
			for _, name := range []string{"crc", "file_offset_zero", "encoding_stats", "chunk_statistics", "encodings_with_rle", "chunk_key_value", "bitpacked_labels_without_levels"} {
				devs = append(devs, Dev{Kind: "chunkopt", RG: gi, Col: ci, Name: name})
			}
		}
	}
	for _, name := range []string{"crc", "file_offset_zero", "encoding_stats", "chunk_statistics", "encodings_with_rle", "chunk_key_value", "bitpacked_labels_without_levels"} {
		devs = append(devs, Dev{Kind: "chunkopt-all", Name: name})
	}
	for _, name := range []string{"created_by", "key_value", "column_orders", "utf8", "root_name", "unknown_ids", "version2", "sorting_columns"} {
		devs = append(devs, Dev{Kind: "fileopt", Name: name})
	}
	return devs
}

func conflict(a, b Dev) bool {
	if a.Kind == "fileopt" || b.Kind == "fileopt" || a.Kind == "chunkopt-all" || b.Kind == "chunkopt-all" {
		return a.Kind == b.Kind && a.Name == b.Name
	}
	if a.RG != b.RG || a.Col != b.Col {
		return false
	}
	if a.Kind != b.Kind {
		// level plans are per page 0 of the baseline split: incompatible with a split deviation
		if (a.Kind == "levels" && b.Kind == "splits") || (a.Kind == "splits" && b.Kind == "levels") {
			return true
		}
		// a snappy shape only matters when the codec stays snappy
		if (a.Kind == "codec" && b.Kind == "snappy") || (a.Kind == "snappy" && b.Kind == "codec") {
			return true
		}
		return false
	}
	if a.Kind == "levels" {
		return a.Which == b.Which
	}
	if a.Kind == "chunkopt" {
		return a.Name == b.Name
	}
	return true
}

func run(c *fw.Ctx) {
	emit := func(t *sut.Target, ct content, devs []Dev, tagf string, a ...interface{}) {
		if !c.Mine() {
			return
		}
		c.Eval()
		c.Distinct(fmt.Sprintf(tagf, a...))
		fc := fcase{Target: t.Name, Records: refpq.RecsToJSON(t.Schema(), ct.recs), Groups: ct.sizes, Devs: devs}
		c.Guard("foreign", fc)
		msg, self := judge(t, ct.recs, ct.sizes, devs)
		if self != "" {
			// the reference disagrees with itself: a harness defect, never a violation
			panic("C04 self-check failed: " + self + fmt.Sprintf(" (devs %+v)", devs))
		}
		if c.WantSample() && len(devs) > 0 && c.Shard == 3 {
			c.Sample(map[string]interface{}{"target": t.Name, "row_groups": ct.sizes, "deviations": devs})
		}
		if msg != "" {
			c.Violate(fmt.Sprintf("%s|%s|%s", t.Name, devKinds(devs), classify(msg)), msg+fmt.Sprintf("\ndeviations from the baseline plan: %+v", devs), "foreign", fc)
		}
	}
	planCap := 4000
	if c.Thorough() {
		planCap = 60000
	}
	c.Bound("max_level_plans_per_stream", planCap)
	for cti, ct := range contents(c) {
		t := sut.Get(ct.target)
		emit(t, ct, nil, "c%d|baseline", cti)
		singles := singleDevs(t, ct, planCap, false)
		for i, d := range singles {
			if i&63 == 0 && c.Expired() {
				c.Capped("time budget hit in single deviations")
				return
			}
			emit(t, ct, []Dev{d}, "c%d|d%d", cti, i)
		}
		if c.Shard == 0 {
			c.Count("single_deviations", int64(len(singles)))
		}
		if (!c.Thorough() && ct.target == "person") || ct.target == "nestrep" || ct.target == "nest16" {
			continue // quick: pairs for the narrow shapes only; the two wide type-coverage shapes: single deviations in both tiers
		}
		red := singleDevs(t, ct, 0, true)
		var pairs int64
		for i := 0; i < len(red); i++ {
			if c.Expired() {
				c.Capped("time budget hit in pairs of deviations")
				return
			}
			for j := i + 1; j < len(red); j++ {
				if conflict(red[i], red[j]) {
					continue
				}
				pairs++
				emit(t, ct, []Dev{red[i], red[j]}, "c%d|p%d,%d", cti, i, j)
			}
		}
		if c.Shard == 0 {
			c.Count("pairs_of_deviations", pairs)
		}
	}
	longFamilies(c, emit)
	longSplits(c, emit)
	bigPages(c, emit)
	midRange(c, emit)
	permutedColumns(c)
}

// longSplits: 20-record contents whose columns are split into pages at
// positions that leave > 8 values (and counts that are not multiples of 8)
// in non-final pages, independently per column, under each codec.
func longSplits(c *fw.Ctx, emit func(t *sut.Target, ct content, devs []Dev, tagf string, a ...interface{})) {
	menus := [][]int{{9, 11}, {11, 9}, {13, 7}, {8, 12}, {17, 3}, {10, 10}, {9, 9, 2}, {1, 19}, {16, 4}, {7, 13}}
	for _, tn := range []string{"mini", "obool", "person", "nestrep"} {
		t := sut.Get(tn)
		for _, variant := range []string{"mixed", "dense"} {
			var recs []refpq.Val
			if variant == "mixed" {
				recs = families.MixedRecords(t, 20)
			} else {
				recs = families.DenseRecords(t, 20)
			}
			ct := content{tn, recs, []int{20}}
			ncols := len(t.Schema().Leaves())
			for mi, m := range menus {
				for col := 0; col < ncols; col++ {
					for _, cd := range []int{refpq.CodecSnappy, refpq.CodecNone} {
						devs := []Dev{{Kind: "splits", RG: 0, Col: col, Splits: m}}
						if cd != refpq.CodecSnappy {
							devs = append(devs, Dev{Kind: "codec", RG: 0, Col: col, Arg: cd})
						}
						emit(t, ct, devs, "split|%s|%s|%d|%d|%d", tn, variant, mi, col, cd)
					}
				}
				// all columns split the same way
				var devs []Dev
				for col := 0; col < ncols; col++ {
					devs = append(devs, Dev{Kind: "splits", RG: 0, Col: col, Splits: m})
				}
				emit(t, ct, devs, "splitall|%s|%s|%d", tn, variant, mi)
			}
		}
	}
}

// longFamilies: long level streams with explicit run structures (bit-packed
// runs of many groups incl. > 63, long RLE runs with multi-byte headers).
func longFamilies(c *fw.Ctx, emit func(t *sut.Target, ct content, devs []Dev, tagf string, a ...interface{})) {
	t := sut.Get("mini")
	mk := func(n int, pat string) content {
		recs := make([]refpq.Val, n)
		for i := range recs {
			var flag refpq.Val
			switch pat {
			case "alt":
				if i%2 == 0 {
					flag = refpq.Val{Null: true}
				} else {
					flag = refpq.Val{Leaf: i%3 == 0}
				}
			case "null":
				flag = refpq.Val{Null: true}
			default:
				flag = refpq.Val{Leaf: i%3 == 0}
			}
			recs[i] = refpq.Val{Group: []refpq.Val{{Leaf: int32(i)}, flag, {}, {Null: true}}}
		}
		return content{"mini", recs, []int{n}}
	}
	type lp struct {
		n    int
		pat  string
		plan []refpq.RunSpec
		name string
	}
	var plans []lp
	for _, g := range []int{1, 63, 64, 65, 127, 128, 200} {
		plans = append(plans, lp{g * 8, "alt", []refpq.RunSpec{{N: g}}, fmt.Sprintf("bp%d", g)})
		plans = append(plans, lp{g*8 - 3, "alt", []refpq.RunSpec{{N: g}}, fmt.Sprintf("bp%d-padded", g)})
		plans = append(plans, lp{g*8 + 16, "alt", []refpq.RunSpec{{N: g}, {N: 2}}, fmt.Sprintf("bp%d+bp2", g)})
	}
	for _, r := range []int{1, 7, 8, 63, 64, 127, 128, 16383, 16384} {
		plans = append(plans, lp{r, "null", []refpq.RunSpec{{RLE: true, N: r}}, fmt.Sprintf("rle%d", r)})
		plans = append(plans, lp{r + 9, "null", []refpq.RunSpec{{RLE: true, N: r}, {RLE: true, N: 9}}, fmt.Sprintf("rle%d+rle9", r)})
		plans = append(plans, lp{r + 8, "null", []refpq.RunSpec{{RLE: true, N: r}, {N: 1}}, fmt.Sprintf("rle%d+bp1", r)})
		plans = append(plans, lp{r + 8, "set", []refpq.RunSpec{{N: 1}, {RLE: true, N: r}}, fmt.Sprintf("bp1+rle%d", r)})
	}
	for i, p := range plans {
		ct := mk(p.n, p.pat)
		// the plan applies to the def levels of column 1 (flag) and 3 (opt is all null: its own default)
		emit(t, ct, []Dev{{Kind: "levels", RG: 0, Col: 1, Which: "def", Plan: p.plan}}, fmt.Sprintf("long|%d|%s", i, p.name))
		// the same with the page body uncompressed and gzip
		emit(t, ct, []Dev{{Kind: "levels", RG: 0, Col: 1, Which: "def", Plan: p.plan}, {Kind: "codec", RG: 0, Col: 1, Arg: refpq.CodecNone}}, fmt.Sprintf("long|%d|%s|unc", i, p.name))
	}
}

// bigPages: pages whose bodies are larger than 32 KiB, 64 KiB and 1 MiB
// (sizes at which decompressors and readers hand data out in pieces), each
// with every codec on every column.
func bigPages(c *fw.Ctx, emit func(t *sut.Target, ct content, devs []Dev, tagf string, a ...interface{})) {
	t := sut.Get("mini")
	ns := []int{9000, 20000, 300000}
	for _, n := range ns {
		recs := make([]refpq.Val, n)
		for i := range recs {
			flag := refpq.Val{Leaf: i%3 == 0}
			if i%5 == 0 {
				flag = refpq.Val{Null: true}
			}
			tags := refpq.Val{}
			if i%4 == 1 {
				tags = refpq.Val{List: []refpq.Val{{Leaf: fmt.Sprintf("t%d", i)}}}
			}
			recs[i] = refpq.Val{Group: []refpq.Val{{Leaf: int32(i * 7)}, flag, tags, {Leaf: int64(i) * 1000003}}}
		}
		ct := content{"mini", recs, []int{n}}
		for _, cd := range []int{refpq.CodecSnappy, refpq.CodecNone, refpq.CodecGzip} {
			var devs []Dev
			if cd != refpq.CodecSnappy {
				for ci := 0; ci < 4; ci++ {
					devs = append(devs, Dev{Kind: "codec", RG: 0, Col: ci, Arg: cd})
				}
			}
			emit(t, ct, devs, fmt.Sprintf("bigpage|n%d|codec%d", n, cd))
		}
	}
}

// midRange: every record count 1..maxN in one foreign file each (default
// plan: one page per chunk), so that a threshold the reader introduces at a
// size in between the small and the boundary cases is crossed.
func midRange(c *fw.Ctx, emit func(t *sut.Target, ct content, devs []Dev, tagf string, a ...interface{})) {
	t := sut.Get("mini")
	maxN := 700
	if c.Thorough() {
		maxN = 2600
	}
	for n := 1; n <= maxN; n++ {
		recs := make([]refpq.Val, n)
		for i := range recs {
			flag := refpq.Val{Leaf: i%3 == 0}
			if i%2 == 1 {
				flag = refpq.Val{Null: true}
			}
			tags := refpq.Val{}
			if i%4 == 1 {
				tags = refpq.Val{List: []refpq.Val{{Leaf: fmt.Sprintf("t%d", i)}, {Leaf: "u"}}}
			}
			recs[i] = refpq.Val{Group: []refpq.Val{{Leaf: int32(i)}, flag, tags, {Null: true}}}
		}
		var devs []Dev
		if n%2 == 0 {
			for ci := 0; ci < 4; ci++ {
				devs = append(devs, Dev{Kind: "codec", RG: 0, Col: ci, Arg: refpq.CodecNone})
			}
		}
		emit(t, content{"mini", recs, []int{n}}, devs, fmt.Sprintf("midrange|n%d", n))
	}
}

// permutedColumns: the file's top-level columns are in another order than
// the fields of the reader's struct (a file written by another program for
// the same logical schema).  Every permutation for mini (24) and flat3 (6).
// The foreign writer gets the permuted schema and records; the generated
// reader of the unpermuted struct must return the original records.
func permutedColumns(c *fw.Ctx) {
	for _, tn := range []string{"mini", "flat3"} {
		t := sut.Get(tn)
		root := t.Schema()
		recs := families.MixedRecords(t, 5)
		n := len(root.Children)
		perm := make([]int, n)
		for i := range perm {
			perm[i] = i
		}
		var all [][]int
		var gen func(k int)
		gen = func(k int) {
			if k == n {
				all = append(all, append([]int(nil), perm...))
				return
			}
			for i := k; i < n; i++ {
				perm[k], perm[i] = perm[i], perm[k]
				gen(k + 1)
				perm[k], perm[i] = perm[i], perm[k]
			}
		}
		gen(0)
		for pi, pm := range all {
			if !c.Mine() {
				continue
			}
			pr := &refpq.Node{Name: root.Name, Rep: refpq.Required}
			for _, j := range pm {
				pr.Children = append(pr.Children, cloneNode(root.Children[j]))
			}
			pr.Finish()
			precs := make([]refpq.Val, len(recs))
			for i, r := range recs {
				g := make([]refpq.Val, n)
				for k, j := range pm {
					g[k] = r.Group[j]
				}
				precs[i] = refpq.Val{Group: g}
			}
			for _, sizes := range [][]int{{5}, {3, 2}} {
				c.Eval()
				c.Distinct(fmt.Sprintf("perm|%s|%d|%v", tn, pi, sizes))
				var groups [][]refpq.Val
				p := 0
				for _, k := range sizes {
					groups = append(groups, precs[p:p+k])
					p += k
				}
				file, err := refpq.WriteForeign(pr, buildPlan(groups, nil))
				if err != nil {
					panic("C04 self-check failed: permuted foreign writer: " + err.Error())
				}
				if pf, err := refpq.ParseFile(file, refpq.ParseOptions{}); err != nil || len(pf.Problems) > 0 {
					panic(fmt.Sprintf("C04 self-check failed: permuted foreign file invalid: %v", err))
				}
				msg := ""
				rr := drive.ReadAll(t, bytes.NewReader(file), len(recs)+8)
				switch {
				case rr.Panic != "":
					msg = "panic: " + rr.Panic
				case rr.OpenErr != nil:
					msg = "NewParquetReader rejects a conformant file: " + rr.OpenErr.Error()
				case rr.Err != nil:
					msg = "Error() on a conformant file: " + rr.Err.Error()
				default:
					if d := drive.CompareRecords(t.Schema(), recs, rr.Snap); d != "" {
						msg = "records differ: " + d
					}
				}
				if msg != "" {
					raw, _ := json.Marshal(map[string]interface{}{"target": tn, "permutation": pm, "row_groups": sizes})
					c.Violate(fmt.Sprintf("%s|column order permuted|%s", tn, classify(msg)), msg+fmt.Sprintf("\nfile columns in order %v of the struct's fields, row groups %v", pm, sizes), "permuted", json.RawMessage(raw))
				}
			}
		}
	}
}

func cloneNode(n *refpq.Node) *refpq.Node {
	c := *n
	c.Children = nil
	for _, ch := range n.Children {
		c.Children = append(c.Children, cloneNode(ch))
	}
	return &c
}

func devKinds(devs []Dev) string {
	s := ""
	for i, d := range devs {
		if i > 0 {
			s += "+"
		}
		s += d.Kind
		if d.Name != "" {
			s += ":" + d.Name
		}
		if d.Kind == "codec" || d.Kind == "snappy" || d.Kind == "stats" {
			s += fmt.Sprintf(":%d", d.Arg)
		}
	}
	if s == "" {
		return "baseline"
	}
	return s
}

func classify(msg string) string {
	out := []rune{}
	for _, ch := range msg {
		if ch == '(' || ch == '\n' || ch == ':' {
			break
		}
		if ch >= '0' && ch <= '9' {
			ch = '#'
		}
		out = append(out, ch)
	}
	return string(out)
}

func replay(c *fw.Ctx, kind string, data json.RawMessage) string {
	var fc fcase
	if err := json.Unmarshal(data, &fc); err != nil {
		return "bad case: " + err.Error()
	}
	t := sut.Get(fc.Target)
	recs, err := refpq.RecsFromJSON(t.Schema(), fc.Records)
	if err != nil {
		return err.Error()
	}
	msg, self := judge(t, recs, fc.Groups, fc.Devs)
	if self != "" {
		return "harness self-check failed: " + self
	}
	return msg
}

// Main runs the check.
func Main() {
	fw.Main(fw.Spec{
		ID:    "C04",
		Level: "exploration",
		Rule: "an independent writer produces, for fixed logical content (mini, flat3, document, person; 1 and 2 row groups), every file within <= d simultaneous deviations from a baseline physical plan (snappy, one page per chunk, canonical run plan, statistics present): " +
			"(a) every legal RLE/bit-packed run plan of each level stream (up to a cap per stream), (b) every split of a column's records into pages, independently per column, (c) codec per column, (d) six snappy stream shapes (literal forms, copy1/copy2/copy4), (e) statistics variants and optional thrift fields (crc, key/value metadata, created_by, column_orders, encoding_stats, unknown field ids, ...). " +
			"d=1 exhaustively, d=2 over a reduced deviation set; plus long level streams (bit-packed runs of 1..200 groups, RLE runs up to 16384 with multi-byte headers) and pages with bodies above 32 KiB, 64 KiB and 1 MiB in every codec. Every file is first validated and reassembled by the reference parser. Oracle: the generated reader returns exactly the records, Error()==nil",
		Assumptions: []string{
			"padding bits of the final bit-packed group are zero (the specification does not define them and the property does not list them)",
			"the independent writer and the reference parser are cross-checked on every file (a disagreement aborts the run as a harness error, it is never reported as a violation)",
			"snappy.Decode and compress/gzip are trusted",
		},
		Run:            run,
		Replay:         replay,
		QuickBudget:    100 * time.Second,
		ThoroughBudget: 30 * time.Minute,
		MemLimitMB:     4096,
	})
}
