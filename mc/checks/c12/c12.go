// Package c12: page statistics are sound bounds and exact null counts.
package c12

import (
	"bytes"
	"encoding/binary"
	"encoding/json"
	"fmt"
	"math"
	"reflect"
	"time"

	"verif/mc/fw"
	"verif/mc/gen"
	"verif/mc/oracle"
	"verif/mc/refpq"
	"verif/mc/sut"
)

// decodeStat decodes a min/max statistic of a leaf.
func decodeStat(leaf *refpq.Node, b []byte) (interface{}, error) {
	switch leaf.GoKind {
	case reflect.Int32:
		if len(b) != 4 {
			return nil, fmt.Errorf("%d bytes for an INT32 statistic", len(b))
		}
		return int32(binary.LittleEndian.Uint32(b)), nil
	case reflect.Uint32:
		if len(b) != 4 {
			return nil, fmt.Errorf("%d bytes for an INT32 statistic", len(b))
		}
		return binary.LittleEndian.Uint32(b), nil
	case reflect.Int64:
		if len(b) != 8 {
			return nil, fmt.Errorf("%d bytes for an INT64 statistic", len(b))
		}
		return int64(binary.LittleEndian.Uint64(b)), nil
	case reflect.Uint64:
		if len(b) != 8 {
			return nil, fmt.Errorf("%d bytes for an INT64 statistic", len(b))
		}
		return binary.LittleEndian.Uint64(b), nil
	case reflect.Float32:
		if len(b) != 4 {
			return nil, fmt.Errorf("%d bytes for a FLOAT statistic", len(b))
		}
		return math.Float32frombits(binary.LittleEndian.Uint32(b)), nil
	case reflect.Float64:
		if len(b) != 8 {
			return nil, fmt.Errorf("%d bytes for a DOUBLE statistic", len(b))
		}
		return math.Float64frombits(binary.LittleEndian.Uint64(b)), nil
	case reflect.Bool:
		if len(b) != 1 {
			return nil, fmt.Errorf("%d bytes for a BOOLEAN statistic", len(b))
		}
		return b[0] != 0, nil
	case reflect.String:
		return string(b), nil
	}
	return nil, fmt.Errorf("unknown kind")
}

// cmp compares in the column type's order; ok=false when either is NaN.
func cmp(a, b interface{}) (c int, ok bool) {
	switch x := a.(type) {
	case int32:
		y := b.(int32)
		return sgn(x < y, x > y), true
	case int64:
		y := b.(int64)
		return sgn(x < y, x > y), true
	case uint32:
		y := b.(uint32)
		return sgn(x < y, x > y), true
	case uint64:
		y := b.(uint64)
		return sgn(x < y, x > y), true
	case float32:
		y := b.(float32)
		if x != x || y != y {
			return 0, false
		}
		return sgn(x < y, x > y), true
	case float64:
		y := b.(float64)
		if x != x || y != y {
			return 0, false
		}
		return sgn(x < y, x > y), true
	case bool:
		y := b.(bool)
		return sgn(!x && y, x && !y), true
	case string:
		return bytes.Compare([]byte(x), []byte(b.(string))), true
	}
	panic("cmp")
}

func sgn(lt, gt bool) int {
	if lt {
		return -1
	}
	if gt {
		return 1
	}
	return 0
}

// checkPage applies the C12 oracle to one decoded page.
func checkPage(leaf *refpq.Node, p *refpq.Page) []string {
	var out []string
	st := p.Stats
	nulls := 0
	for _, d := range p.Defs {
		if int(d) < leaf.DefLevel {
			nulls++
		}
	}
	if leaf.DefLevel > 0 {
		if !st.Present || !st.HasNull {
			// statistics are optional in the format: an absent null_count
			// asserts nothing and therefore cannot be unsound
		} else if st.NullCount != int64(nulls) {
			out = append(out, fmt.Sprintf("null_count %d but the page has %d entries without a value", st.NullCount, nulls))
		}
	} else if st.Present && st.HasNull && st.NullCount != 0 {
		out = append(out, fmt.Sprintf("null_count %d on a required column", st.NullCount))
	}
	check := func(name string, has bool, raw []byte, isMin bool) {
		if !has {
			return
		}
		if len(p.Values) == 0 {
			out = append(out, name+" present although the page has no non-null value")
			return
		}
		bound, err := decodeStat(leaf, raw)
		if err != nil {
			out = append(out, name+" malformed: "+err.Error())
			return
		}
		if f, ok := bound.(float32); ok && f != f {
			out = append(out, name+" is NaN")
			return
		}
		if f, ok := bound.(float64); ok && f != f {
			out = append(out, name+" is NaN")
			return
		}
		for i, v := range p.Values {
			c, ok := cmp(bound, v)
			if !ok {
				continue // NaN value
			}
			if isMin && c > 0 {
				out = append(out, fmt.Sprintf("%s %v is greater than value %d of the page (%v)", name, show(bound), i, show(v)))
				return
			}
			if !isMin && c < 0 {
				out = append(out, fmt.Sprintf("%s %v is less than value %d of the page (%v)", name, show(bound), i, show(v)))
				return
			}
		}
	}
	check("min_value", st.HasMinValue, st.MinValue, true)
	check("max_value", st.HasMaxValue, st.MaxValue, false)
	check("min (deprecated)", st.HasMin, st.Min, true)
	check("max (deprecated)", st.HasMax, st.Max, false)
	return out
}

func show(x interface{}) string {
	if s, ok := x.(string); ok {
		if len(s) > 20 {
			return fmt.Sprintf("%q...(%d bytes)", s[:20], len(s))
		}
		return fmt.Sprintf("%q", s)
	}
	return fmt.Sprintf("%v", x)
}

// checkCase writes the records and checks every page's statistics.
func checkCase(cs oracle.Case) []oracle.Failure {
	t := sut.Get(cs.Target)
	recs, err := refpq.RecsFromJSON(t.Schema(), cs.Records)
	if err != nil {
		return []oracle.Failure{{Class: "harness", Msg: err.Error()}}
	}
	return checkRecs(t, recs, cs.Batches, cs.Page, sut.Codec(cs.Codec))
}

func checkRecs(t *sut.Target, recs []refpq.Val, batches []int, page int, codec sut.Codec) []oracle.Failure {
	file, fails := oracle.Run(t, recs, batches, page, codec, oracle.NoScramble)
	if len(fails) > 0 {
		return fails
	}
	pf, err := refpq.ParseFile(file, refpq.ParseOptions{})
	if err != nil {
		return []oracle.Failure{{Class: "invalid", Code: "unparseable", Msg: err.Error()}}
	}
	var out []oracle.Failure
	for gi, rg := range pf.RowGroups {
		for _, ch := range rg.Chunks {
			if ch.Leaf == nil {
				continue
			}
			for pi, p := range ch.Pages {
				if !p.Decoded {
					out = append(out, oracle.Failure{Class: "invalid", Code: "page.decode", Msg: fmt.Sprintf("page %d of %s not decodable", pi, ch.Leaf.PathKey())})
					continue
				}
				for _, m := range checkPage(ch.Leaf, p) {
					kind := ch.Leaf.GoKind.String()
					out = append(out, oracle.Failure{Class: "stats", Code: kind + ":" + statClass(m), Msg: fmt.Sprintf("row group %d column %s page %d: %s", gi, ch.Leaf.PathKey(), pi, m)})
				}
			}
		}
	}
	return out
}

func statClass(m string) string {
	out := []rune{}
	for _, ch := range m {
		if ch >= '0' && ch <= '9' || ch == '"' {
			break
		}
		out = append(out, ch)
	}
	return string(out)
}

func run(c *fw.Ctx) {
	m := 3
	if c.Thorough() {
		m = 4
	}
	c.Bound("page_content_length_m", m)
	emit := func(tag string, t *sut.Target, recs []refpq.Val, batches []int, page int, codec sut.Codec) {
		if !c.Mine() {
			return
		}
		c.Eval()
		c.Distinct(tag)
		if c.WantSample() && c.Shard == 2 {
			c.Sample(oracle.Describe(t, recs, batches, page, codec))
		}
		for _, f := range checkRecs(t, recs, batches, page, codec) {
			cs := oracle.MakeCase(t, recs, batches, page, codec, oracle.NoScramble)
			c.Violate(t.Name+"|"+f.Class+"|"+f.Code, f.String()+"\ncase: "+fmt.Sprint(oracle.Describe(t, recs, batches, page, codec)), "case", cs)
		}
	}
	// Part 1: flat24, every column, every value sequence of length <= m over
	// the type's alphabet (with order), nulls interleaved for optional and
	// repeated columns.
	t := sut.Get("flat24")
	root := t.Schema()
	base := func() refpq.Val {
		f := &gen.Filler{}
		var g []refpq.Val
		for _, ch := range root.Children {
			switch ch.Rep {
			case refpq.Required:
				g = append(g, refpq.Val{Leaf: f.Next(ch.GoKind)})
			case refpq.Optional:
				g = append(g, refpq.Val{Null: true})
			default:
				g = append(g, refpq.Val{})
			}
		}
		return refpq.Val{Group: g}
	}()
	for ci, col := range root.Children {
		alpha := gen.Alphabet(col.GoKind)
		k := len(alpha)
		if col.Rep != refpq.Required {
			k++ // index len(alpha) = null
		}
		for l := 1; l <= m; l++ {
			total := 1
			for i := 0; i < l; i++ {
				total *= k
			}
			for x := 0; x < total; x++ {
				if x&255 == 0 && c.Expired() {
					c.Capped("time budget hit in part 1")
					return
				}
				seq := make([]int, l)
				y := x
				for i := range seq {
					seq[i] = y % k
					y /= k
				}
				// one record per element
				recs := make([]refpq.Val, l)
				for i, s := range seq {
					r := refpq.Val{Group: append([]refpq.Val(nil), base.Group...)}
					switch {
					case s == len(alpha) && col.Rep == refpq.Optional:
						r.Group[ci] = refpq.Val{Null: true}
					case s == len(alpha):
						r.Group[ci] = refpq.Val{}
					case col.Rep == refpq.Repeated:
						r.Group[ci] = refpq.Val{List: []refpq.Val{{Leaf: alpha[s]}}}
					default:
						r.Group[ci] = refpq.Val{Leaf: alpha[s]}
					}
					recs[i] = r
				}
				emit(fmt.Sprintf("p1|c%d|l%d|x%d|onepage", ci, l, x), t, recs, []int{l}, l, sut.Snappy)
				if l >= 2 {
					emit(fmt.Sprintf("p1|c%d|l%d|x%d|page1", ci, l, x), t, recs, []int{l}, 1, sut.Uncompressed)
				}
				if l >= 3 {
					emit(fmt.Sprintf("p1|c%d|l%d|x%d|page2", ci, l, x), t, recs, []int{l}, 2, sut.Snappy)
				}
				// repeated: all values in one record's list
				if col.Rep == refpq.Repeated && l >= 2 {
					r := refpq.Val{Group: append([]refpq.Val(nil), base.Group...)}
					var lst []refpq.Val
					for _, s := range seq {
						if s < len(alpha) {
							lst = append(lst, refpq.Val{Leaf: alpha[s]})
						}
					}
					r.Group[ci] = refpq.Val{List: lst}
					emit(fmt.Sprintf("p1|c%d|l%d|x%d|onelist", ci, l, x), t, []refpq.Val{r}, []int{1}, 1, sut.Snappy)
				}
			}
		}
	}
	// Part 2: nested contexts (person, document): every structure with <= s
	// nodes in ordered pairs, leaf values drawn cyclically from the alphabets
	// with several rotations.
	s := 2
	rots := 3
	if c.Thorough() {
		s = 3
		rots = 6
	}
	for _, tn := range []string{"person", "document"} {
		t := sut.Get(tn)
		all := gen.Structures(t.Schema(), s, 2)
		if len(all) > 150 {
			all = all[:150]
		}
		for i := range all {
			for j := range all {
				if j%5 != i%5 && !c.Thorough() {
					continue
				}
				for rot := 0; rot < rots; rot++ {
					if c.Expired() {
						c.Capped("time budget hit in part 2")
						return
					}
					cnt := rot
					fill := func(v refpq.Val) refpq.Val { return fillAlpha(t.Schema(), v, &cnt) }
					recs := []refpq.Val{fill(all[i]), fill(all[j])}
					emit(fmt.Sprintf("p2|%s|%d|%d|r%d", tn, i, j, rot), t, recs, []int{2}, 2, sut.Snappy)
				}
			}
		}
	}
	// Part 3: nest16 - all 8 leaf types, required and optional, below an
	// optional group O and a repeated group R.  A record state fixes O in
	// {nil, present with its optional leaves nil, present with them set} and R
	// in the lists of length <= 2 over {element with optional leaves nil,
	// element with them set}: every sequence of <= l3 record states, as one
	// page and one record per page, values cyclic over the alphabets.
	l3 := 2
	if c.Thorough() {
		l3 = 3
	}
	c.Bound("part3_record_states_sequence_length", l3)
	t3 := sut.Get("nest16")
	in := t3.Schema().Children[1]
	elem := func(set bool) refpq.Val {
		g := make([]refpq.Val, len(in.Children))
		for i, ch := range in.Children {
			if ch.Rep == refpq.Optional && !set {
				g[i] = refpq.Val{Null: true}
			} else {
				g[i] = refpq.Val{Leaf: nil}
			}
		}
		return refpq.Val{Group: g}
	}
	oStates := []refpq.Val{{Null: true}, elem(false), elem(true)}
	rStates := []refpq.Val{{}, {List: []refpq.Val{elem(false)}}, {List: []refpq.Val{elem(true)}},
		{List: []refpq.Val{elem(false), elem(true)}}, {List: []refpq.Val{elem(true), elem(false)}},
		{List: []refpq.Val{elem(false), elem(false)}}, {List: []refpq.Val{elem(true), elem(true)}}}
	nst := len(oStates) * len(rStates)
	for l := 1; l <= l3; l++ {
		total := 1
		for i := 0; i < l; i++ {
			total *= nst
		}
		for x := 0; x < total; x++ {
			if x&63 == 0 && c.Expired() {
				c.Capped("time budget hit in part 3")
				return
			}
			for rot := 0; rot < 2; rot++ {
				cnt := rot * 3
				recs := make([]refpq.Val, l)
				y := x
				for i := range recs {
					st := y % nst
					y /= nst
					rec := refpq.Val{Group: []refpq.Val{{Leaf: nil}, oStates[st%len(oStates)], rStates[st/len(oStates)]}}
					recs[i] = fillAlpha(t3.Schema(), rec, &cnt)
				}
				emit(fmt.Sprintf("p3|l%d|x%d|r%d|onepage", l, x, rot), t3, recs, []int{l}, l, sut.Snappy)
				if l >= 2 {
					emit(fmt.Sprintf("p3|l%d|x%d|r%d|page1", l, x, rot), t3, recs, []int{l}, 1, sut.Uncompressed)
				}
			}
		}
	}
}

// fillAlpha fills leaves with alphabet values chosen cyclically.
func fillAlpha(root *refpq.Node, v refpq.Val, cnt *int) refpq.Val {
	var inner func(n *refpq.Node, v refpq.Val) refpq.Val
	var node func(n *refpq.Node, v refpq.Val) refpq.Val
	inner = func(n *refpq.Node, v refpq.Val) refpq.Val {
		if n.Leaf {
			a := gen.Alphabet(n.GoKind)
			*cnt++
			return refpq.Val{Leaf: a[(*cnt*7)%len(a)]}
		}
		out := refpq.Val{Group: make([]refpq.Val, len(n.Children))}
		for i, ch := range n.Children {
			out.Group[i] = node(ch, v.Group[i])
		}
		return out
	}
	node = func(n *refpq.Node, v refpq.Val) refpq.Val {
		switch n.Rep {
		case refpq.Optional:
			if v.Null {
				return v
			}
			return inner(n, v)
		case refpq.Repeated:
			out := refpq.Val{}
			for _, e := range v.List {
				out.List = append(out.List, inner(n, e))
			}
			return out
		}
		return inner(n, v)
	}
	return inner(root, v)
}

func replay(c *fw.Ctx, kind string, data json.RawMessage) string {
	var cs oracle.Case
	if err := json.Unmarshal(data, &cs); err != nil {
		return "bad case: " + err.Error()
	}
	fails := checkCase(cs)
	if len(fails) == 0 {
		return ""
	}
	return fmt.Sprint(fails)
}

// Main runs the check.
func Main() {
	fw.Main(fw.Spec{
		ID:    "C12",
		Level: "exploration",
		Rule: "part 1: for each of the 24 columns of flat24 (8 types x required/optional/repeated) every ordered page content of length <= m over the type's alphabet (extremes, NaN/Inf, -0, empty/long/non-UTF8 strings, the library's sentinel string), nulls interleaved, as one page and split over pages (page size 1, 2), lists in one record; " +
			"part 2: person/document (leaves inside optional and repeated groups): every pair of record structures with <= s nodes with alphabet values in several rotations; " +
			"part 3: nest16 (8 types x required/optional below an optional and below a repeated group): every sequence of <= l3 record states (O nil / present with optional leaves nil / set; R every list of <= 2 such elements), so every definition level between 0 and the maximum occurs for every type. Oracle on every page the reference parser decodes: null_count == #(def < max); min/max, when present, bound every non-null non-NaN value in the type's order; absent when there is no non-null value. distinct = case tag",
		Assumptions: []string{
			"absent statistics, absent null_count and absent min/max are accepted (the property constrains what is written, and statistics are optional in the format)",
			"order: signed for int32/int64, unsigned for uint32/uint64 (UINT_32/UINT_64), IEEE for floats with -0 == +0 and NaN values skipped, bytewise for strings",
		},
		Run:            run,
		Replay:         replay,
		QuickBudget:    100 * time.Second,
		ThoroughBudget: 25 * time.Minute,
	})
}
