// Package c01: write-then-read returns exactly the records that were added.
// Small-scope exhaustive enumeration of record sequences x batch partitions x
// page sizes x codecs on the real generated writer/reader.
package c01

import (
	"encoding/json"
	"fmt"
	"time"

	"verif/mc/families"
	"verif/mc/fw"
	"verif/mc/oracle"
)

func run(c *fw.Ctx) {
	families.RunAll(c, oracle.RoundTrip, families.ForC01(c.Thorough()))
}

func replay(c *fw.Ctx, kind string, data json.RawMessage) string {
	var cs oracle.Case
	if err := json.Unmarshal(data, &cs); err != nil {
		return "bad case: " + err.Error()
	}
	fails := cs.Replay()
	if len(fails) == 0 {
		return ""
	}
	return fmt.Sprint(fails)
}

// Main runs the check.
func Main() {
	fw.Main(fw.Spec{
		ID:    "C01",
		Level: "exploration",
		Rule: "exhaustive small-scope enumeration on the real generated code: (A) every sequence of n records over k structurally distinct records x every composition of n into Write batches x every page size 1..n+1 x codecs; " +
			"(B) every nil/true/false sequence of an optional bool column x page sizes x 2-batch splits; (C) every alphabet value (extremes) substituted into every column; (D) run-structured long inputs around the 8/504/512/1000 boundaries; " +
			"(E) every record structure with <= s constructor nodes, singly and in ordered pairs. A case is distinct by (target, records, batches, page size, codec); all enumerated cases are non-trivial (>= 1 record).",
		Assumptions: []string{
			"values outside the alphabets and sequences/structures beyond the stated bounds are not covered",
			"records are mutated through every pointer and slice right after Add, and every scanned record is compared again after the last Next (aliasing clauses)",
			"equality: nil slice == empty slice, floats bit for bit",
		},
		Run:            run,
		Replay:         replay,
		QuickBudget:    110 * time.Second,
		ThoroughBudget: 30 * time.Minute,
	})
}
