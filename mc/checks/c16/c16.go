// Package c16: introspection calls report exactly what is in the file.
package c16

import (
	"bytes"
	"encoding/json"
	"fmt"
	"io"
	"reflect"
	"strconv"
	"strings"
	"time"

	"github.com/parsyl/parquet"
	"verif/mc/env"
	"verif/mc/families"
	"verif/mc/fw"
	"verif/mc/oracle"
	"verif/mc/refpq"
	"verif/mc/sut"
)

// cmpThrift compares a generated thrift struct (by reflection over its
// `thrift:"name,id[,required]"` tags) with the reference parser's generic
// tree, field by field.
func cmpThrift(path string, v reflect.Value, ts *refpq.TS, out *[]string) {
	if v.Kind() == reflect.Ptr {
		v = v.Elem()
	}
	seen := map[int16]bool{}
	t := v.Type()
	for i := 0; i < t.NumField(); i++ {
		tag := t.Field(i).Tag.Get("thrift")
		if tag == "" {
			continue
		}
		parts := strings.Split(tag, ",")
		id64, _ := strconv.Atoi(parts[1])
		id := int16(id64)
		seen[id] = true
		name := path + "." + parts[0]
		fv := v.Field(i)
		tv, present := ts.Get(id)
		cmpValue(name, fv, tv, present, out)
	}
	for _, f := range ts.Fields {
		if !seen[f.ID] {
			*out = append(*out, fmt.Sprintf("%s: the file has field id %d which the call does not report", path, f.ID))
		}
	}
}

func cmpValue(name string, fv reflect.Value, tv refpq.TVal, present bool, out *[]string) {
	switch fv.Kind() {
	case reflect.Ptr:
		if fv.IsNil() {
			if present {
				*out = append(*out, name+": present in the file, reported as absent")
			}
			return
		}
		if !present {
			*out = append(*out, name+": reported but absent in the file")
			return
		}
		if fv.Elem().Kind() == reflect.Struct {
			if tv.S == nil {
				*out = append(*out, name+": not a struct in the file")
				return
			}
			cmpThrift(name, fv, tv.S, out)
			return
		}
		cmpValue(name, fv.Elem(), tv, true, out)
	case reflect.Slice:
		if fv.Type().Elem().Kind() == reflect.Uint8 { // binary
			if fv.IsNil() {
				if present {
					*out = append(*out, name+": present in the file, reported as absent")
				}
				return
			}
			if !present {
				*out = append(*out, name+": reported but absent in the file")
				return
			}
			if !bytes.Equal(fv.Bytes(), tv.B) {
				*out = append(*out, fmt.Sprintf("%s: %x reported, %x in the file", name, fv.Bytes(), tv.B))
			}
			return
		}
		if !present {
			if fv.Len() != 0 {
				*out = append(*out, name+": list reported but absent in the file")
			}
			return
		}
		if fv.Len() != len(tv.L) {
			*out = append(*out, fmt.Sprintf("%s: %d elements reported, %d in the file", name, fv.Len(), len(tv.L)))
			return
		}
		for i := 0; i < fv.Len(); i++ {
			cmpValue(fmt.Sprintf("%s[%d]", name, i), fv.Index(i), tv.L[i], true, out)
		}
	case reflect.Struct:
		if !present || tv.S == nil {
			*out = append(*out, name+": struct reported but absent in the file")
			return
		}
		cmpThrift(name, fv, tv.S, out)
	case reflect.String:
		if !present {
			*out = append(*out, name+": required field absent in the file")
			return
		}
		if fv.String() != string(tv.B) {
			*out = append(*out, fmt.Sprintf("%s: %q reported, %q in the file", name, fv.String(), tv.B))
		}
	case reflect.Bool:
		if !present {
			*out = append(*out, name+": required field absent in the file")
			return
		}
		if fv.Bool() != (tv.Type == refpq.TTrue) {
			*out = append(*out, name+": bool differs")
		}
	case reflect.Int8, reflect.Int16, reflect.Int32, reflect.Int64:
		if !present {
			*out = append(*out, name+": required field absent in the file")
			return
		}
		if fv.Int() != tv.I {
			*out = append(*out, fmt.Sprintf("%s: %d reported, %d in the file", name, fv.Int(), tv.I))
		}
	default:
		*out = append(*out, fmt.Sprintf("%s: unhandled kind %s", name, fv.Kind()))
	}
}

// sources through which the introspection calls read the file: a plain
// bytes.Reader and sources that fragment their reads (what is in the file
// does not depend on how the source hands it out)
var sourceKinds = []struct {
	name string
	plan *env.SourcePlan
}{
	{"", nil},
	{"chunk1:", &env.SourcePlan{Chunk: 1}},
	{"chunk3+eofdata:", &env.SourcePlan{Chunk: 3, EOFWithData: true}},
	{"chunk64:", &env.SourcePlan{Chunk: 64}},
}

// checkFile applies the C16 oracle to a file through every kind of source.
func checkFile(file []byte) []oracle.Failure {
	var out []oracle.Failure
	for _, sk := range sourceKinds {
		sk := sk
		if sk.plan != nil && len(file) > 32768 {
			// files with thousands of pages: the listing from every page start is
			// quadratic already; fragmenting sources only for files up to 32 KiB
			continue
		}
		out = append(out, checkFileVia(file, sk.name, func() io.ReadSeeker {
			if sk.plan == nil {
				return bytes.NewReader(file)
			}
			r, _ := env.NewSource(file, *sk.plan)
			return r
		})...)
		if len(out) > 0 {
			break
		}
	}
	return out
}

func checkFileVia(file []byte, via string, src func() io.ReadSeeker) []oracle.Failure {
	var out []oracle.Failure
	add := func(code, format string, a ...interface{}) {
		out = append(out, oracle.Failure{Class: "introspection", Code: via + code, Msg: fmt.Sprintf(format, a...)})
	}
	pf, err := refpq.ParseFile(file, refpq.ParseOptions{})
	if err != nil {
		return []oracle.Failure{{Class: "invalid", Code: "unparseable", Msg: err.Error()}}
	}
	var pmsg string
	// ReadMetaData
	pmsg = fw.Protect(func() {
		meta, err := parquet.ReadMetaData(src())
		if err != nil {
			add("ReadMetaData", "ReadMetaData failed on a valid file: %v", err)
			return
		}
		var diffs []string
		cmpThrift("FileMetaData", reflect.ValueOf(meta), pf.Footer, &diffs)
		for _, d := range diffs {
			add("ReadMetaData.diff", "%s", d)
		}
		// PageHeaders(footer, r)
		hs, err := parquet.PageHeaders(meta, src())
		if err != nil {
			add("PageHeaders", "PageHeaders failed on a valid file: %v", err)
			return
		}
		// the independent sequential walk of the file
		var want []*refpq.Page
		for _, off := range pf.SeqPages {
			pg, err := refpq.ParsePageHeader(file, off)
			if err != nil {
				add("harness", "%v", err)
				return
			}
			want = append(want, pg)
		}
		if len(hs) != len(want) {
			add("PageHeaders.count", "PageHeaders returned %d headers, the file holds %d pages", len(hs), len(want))
		} else {
			for i := range hs {
				var diffs []string
				cmpThrift(fmt.Sprintf("PageHeaders[%d]", i), reflect.ValueOf(&hs[i]), want[i].Header, &diffs)
				for _, d := range diffs {
					add("PageHeaders.diff", "%s (page at offset %d)", d, want[i].Offset)
				}
			}
		}
		// PageHeadersAtOffset for every chunk start and every page start
		for gi, rg := range pf.RowGroups {
			for ci, ch := range rg.Chunks {
				rem := ch.NumValues
				for pi := range ch.Pages {
					start := ch.Pages[pi].Offset
					got, err := parquet.PageHeadersAtOffset(src(), int64(start), rem)
					if err != nil {
						add("PageHeadersAtOffset", "row group %d column %d from page %d (offset %d, n=%d): %v", gi, ci, pi, start, rem, err)
						break
					}
					exp := ch.Pages[pi:]
					if len(got) != len(exp) {
						add("PageHeadersAtOffset.count", "row group %d column %d from page %d (offset %d, n=%d): %d headers returned, %d pages there", gi, ci, pi, start, rem, len(got), len(exp))
					} else {
						for k := range got {
							var diffs []string
							cmpThrift("PageHeadersAtOffset", reflect.ValueOf(&got[k]), exp[k].Header, &diffs)
							for _, d := range diffs {
								add("PageHeadersAtOffset.diff", "%s (offset %d)", d, exp[k].Offset)
							}
						}
					}
					rem -= int64(ch.Pages[pi].NumValues)
				}
			}
		}
	})
	if pmsg != "" {
		out = append(out, oracle.Failure{Class: "panic", Code: "introspection", Msg: pmsg})
	}
	return out
}

func judge(t *sut.Target, recs []refpq.Val, batches []int, page int, codec sut.Codec) []oracle.Failure {
	file, fails := oracle.Run(t, recs, batches, page, codec, oracle.NoScramble)
	if len(fails) > 0 {
		return fails
	}
	return checkFile(file)
}

func run(c *fw.Ctx) {
	families.RunAllWith(c, oracle.NoScramble, families.ForC16(c.Thorough()), judge)
}

func replay(c *fw.Ctx, kind string, data json.RawMessage) string {
	var cs oracle.Case
	if err := json.Unmarshal(data, &cs); err != nil {
		return "bad case: " + err.Error()
	}
	t := sut.Get(cs.Target)
	recs, err := refpq.RecsFromJSON(t.Schema(), cs.Records)
	if err != nil {
		return err.Error()
	}
	fails := judge(t, recs, cs.Batches, cs.Page, sut.Codec(cs.Codec))
	if len(fails) == 0 {
		return ""
	}
	return fmt.Sprint(fails)
}

// Main runs the check.
func Main() {
	fw.Main(fw.Spec{
		ID:    "C16",
		Level: "exploration",
		Rule: "for every file of the exhaustive families (boundary product over record sequences x batch partitions x page sizes x codecs; long runs; structure-exhaustive on nested shapes): ReadMetaData is compared field by field (thrift ids, presence and values) with the reference parser's footer tree; PageHeaders(footer, r) with the independent sequential walk of the file (one header per page, file order, every field); " +
			"PageHeadersAtOffset(r, off, n) for every chunk start with n = chunk num_values and for every later page start with n = values remaining in the chunk; all three calls through a bytes.Reader and through sources that fragment their reads (1 byte, 3 bytes with data+EOF, 64 bytes). distinct = (family, case tag)",
		Assumptions: []string{
			"only files written by the library's own writer are inspected (all valid per C02); foreign files are the subject of C04",
		},
		Run:            run,
		Replay:         replay,
		QuickBudget:    100 * time.Second,
		ThoroughBudget: 25 * time.Minute,
	})
}
