// Package c16: introspection calls report exactly what is in the file.
package c16

import (
	"bytes"
	"encoding/json"
	"fmt"
	"io"
	"reflect"
	"strconv"
	"strings"
	"time"

	"github.com/parsyl/parquet"
	"verif/mc/env"
	"verif/mc/families"
	"verif/mc/fw"
	"verif/mc/oracle"
	"verif/mc/refpq"
	"verif/mc/sut"
)

// cmpThrift compares a generated thrift struct (by reflection over its
// `thrift:"name,id[,required]"` tags) with the reference parser's generic
// tree, field by field.
func cmpThrift(path string, v reflect.Value, ts *refpq.TS, out *[]string) {
	if v.Kind() == reflect.Ptr {
		v = v.Elem()
	}
	seen := map[int16]bool{}
	t := v.Type()
	for i := 0; i < t.NumField(); i++ {
		tag := t.Field(i).Tag.Get("thrift")
		if tag == "" {
			continue
		}
		parts := strings.Split(tag, ",")
		id64, _ := strconv.Atoi(parts[1])
		id := int16(id64)
		seen[id] = true
		name := path + "." + parts[0]
		fv := v.Field(i)
		tv, present := ts.Get(id)
		cmpValue(name, fv, tv, present, out)
	}
	for _, f := range ts.Fields {
		if !seen[f.ID] {
			*out = append(*out, fmt.Sprintf("%s: the file has field id %d which the call does not report", path, f.ID))
		}
	}
}

func cmpValue(name string, fv reflect.Value, tv refpq.TVal, present bool, out *[]string) {
	switch fv.Kind() {
	case reflect.Ptr:
		if fv.IsNil() {
			if present {
				*out = append(*out, name+": present in the file, reported as absent")
			}
			return
		}
		if !present {
			*out = append(*out, name+": reported but absent in the file")
			return
		}
		if fv.Elem().Kind() == reflect.Struct {
			if tv.S == nil {
				*out = append(*out, name+": not a struct in the file")
				return
			}
			cmpThrift(name, fv, tv.S, out)
			return
		}
		cmpValue(name, fv.Elem(), tv, true, out)
	case reflect.Slice:
		if fv.Type().Elem().Kind() == reflect.Uint8 { // binary
			if fv.IsNil() {
				if present {
					*out = append(*out, name+": present in the file, reported as absent")
				}
				return
			}
			if !present {
				*out = append(*out, name+": reported but absent in the file")
				return
			}
			if !bytes.Equal(fv.Bytes(), tv.B) {
				*out = append(*out, fmt.Sprintf("%s: %x reported, %x in the file", name, fv.Bytes(), tv.B))
			}
			return
		}
		if !present {
			if fv.Len() != 0 {
				*out = append(*out, name+": list reported but absent in the file")
			}
			return
		}
		if fv.Len() != len(tv.L) {
			*out = append(*out, fmt.Sprintf("%s: %d elements reported, %d in the file", name, fv.Len(), len(tv.L)))
			return
		}
		for i := 0; i < fv.Len(); i++ {
			cmpValue(fmt.Sprintf("%s[%d]", name, i), fv.Index(i), tv.L[i], true, out)
		}
	case reflect.Struct:
		if !present || tv.S == nil {
			*out = append(*out, name+": struct reported but absent in the file")
			return
		}
		cmpThrift(name, fv, tv.S, out)
	case reflect.String:
		if !present {
			*out = append(*out, name+": required field absent in the file")
			return
		}
		if fv.String() != string(tv.B) {
			*out = append(*out, fmt.Sprintf("%s: %q reported, %q in the file", name, fv.String(), tv.B))
		}
	case reflect.Bool:
		if !present {
			*out = append(*out, name+": required field absent in the file")
			return
		}
		if fv.Bool() != (tv.Type == refpq.TTrue) {
			*out = append(*out, name+": bool differs")
		}
	case reflect.Int8, reflect.Int16, reflect.Int32, reflect.Int64:
		if !present {
			*out = append(*out, name+": required field absent in the file")
			return
		}
		if fv.Int() != tv.I {
			*out = append(*out, fmt.Sprintf("%s: %d reported, %d in the file", name, fv.Int(), tv.I))
		}
	default:
		*out = append(*out, fmt.Sprintf("%s: unhandled kind %s", name, fv.Kind()))
	}
}

// sources through which the introspection calls read the file: a plain
// bytes.Reader and sources that fragment their reads (what is in the file
// does not depend on how the source hands it out)
var sourceKinds = []struct {
	name string
	plan *env.SourcePlan
}{
	{"", nil},
	{"chunk1:", &env.SourcePlan{Chunk: 1}},
	{"chunk3+eofdata:", &env.SourcePlan{Chunk: 3, EOFWithData: true}},
	{"chunk64:", &env.SourcePlan{Chunk: 64}},
}

// checkFile applies the C16 oracle to a file through every kind of source.
func checkFile(file []byte) []oracle.Failure {
	var out []oracle.Failure
	for _, sk := range sourceKinds {
		sk := sk
		if sk.plan != nil && len(file) > 32768 {
			// files with thousands of pages: the listing from every page start is
			// quadratic already; fragmenting sources only for files up to 32 KiB
			continue
		}
		out = append(out, checkFileVia(file, sk.name, func() io.ReadSeeker {
			if sk.plan == nil {
				return bytes.NewReader(file)
			}
			r, _ := env.NewSource(file, *sk.plan)
			return r
		})...)
		if len(out) > 0 {
			break
		}
	}
	return out
}

func checkFileVia(file []byte, via string, src func() io.ReadSeeker) []oracle.Failure {
	var out []oracle.Failure
	add := func(code, format string, a ...interface{}) {
		out = append(out, oracle.Failure{Class: "introspection", Code: via + code, Msg: fmt.Sprintf(format, a...)})
	}
	pf, err := refpq.ParseFile(file, refpq.ParseOptions{})
	if err != nil {
		return []oracle.Failure{{Class: "invalid", Code: "unparseable", Msg: err.Error()}}
	}
	var pmsg string
	// ReadMetaData
	pmsg = fw.Protect(func() {
		meta, err := parquet.ReadMetaData(src())
		if err != nil {
			add("ReadMetaData", "ReadMetaData failed on a valid file: %v", err)
			return
		}
		var diffs []string
		cmpThrift("FileMetaData", reflect.ValueOf(meta), pf.Footer, &diffs)
		for _, d := range diffs {
			add("ReadMetaData.diff", "%s", d)
		}
		// PageHeaders(footer, r)
		hs, err := parquet.PageHeaders(meta, src())
		if err != nil {
			add("PageHeaders", "PageHeaders failed on a valid file: %v", err)
			return
		}
		// the independent sequential walk of the file
		var want []*refpq.Page
		for _, off := range pf.SeqPages {
			pg, err := refpq.ParsePageHeader(file, off)
			if err != nil {
				add("harness", "%v", err)
				return
			}
			want = append(want, pg)
		}
		if len(hs) != len(want) {
			add("PageHeaders.count", "PageHeaders returned %d headers, the file holds %d pages", len(hs), len(want))
		} else {
			for i := range hs {
				var diffs []string
				cmpThrift(fmt.Sprintf("PageHeaders[%d]", i), reflect.ValueOf(&hs[i]), want[i].Header, &diffs)
				for _, d := range diffs {
					add("PageHeaders.diff", "%s (page at offset %d)", d, want[i].Offset)
				}
			}
		}
		// PageHeadersAtOffset for every chunk start and every page start
		for gi, rg := range pf.RowGroups {
			for ci, ch := range rg.Chunks {
				rem := ch.NumValues
				for pi := range ch.Pages {
					start := ch.Pages[pi].Offset
					got, err := parquet.PageHeadersAtOffset(src(), int64(start), rem)
					if err != nil {
						add("PageHeadersAtOffset", "row group %d column %d from page %d (offset %d, n=%d): %v", gi, ci, pi, start, rem, err)
						break
					}
					exp := ch.Pages[pi:]
					if len(got) != len(exp) {
						add("PageHeadersAtOffset.count", "row group %d column %d from page %d (offset %d, n=%d): %d headers returned, %d pages there", gi, ci, pi, start, rem, len(got), len(exp))
					} else {
						for k := range got {
							var diffs []string
							cmpThrift("PageHeadersAtOffset", reflect.ValueOf(&got[k]), exp[k].Header, &diffs)
							for _, d := range diffs {
								add("PageHeadersAtOffset.diff", "%s (offset %d)", d, exp[k].Offset)
							}
						}
					}
					rem -= int64(ch.Pages[pi].NumValues)
				}
			}
		}
	})
	if pmsg != "" {
		out = append(out, oracle.Failure{Class: "panic", Code: "introspection", Msg: pmsg})
	}
	return out
}

// hugeCounts: counts in the 32-bit range.  A column chunk of an optional
// int32 column whose pages hold 2^30 nulls each is a few bytes on disk (one
// RLE run per page), so a chunk with 2^31-1, 2^31 and 3*2^30 values can be
// listed although it could never be materialised.  The files are built by
// hand from the thrift definitions (the reference parser is not used: it
// decodes what it parses); the expectation is the list of headers written.
type hugePage struct{ n int64 }

var hugeCases = [][]hugePage{
	{{1<<31 - 1}},
	{{1 << 30}, {1 << 30}},
	{{1 << 30}, {1 << 30}, {1 << 30}},
	{{1<<31 - 1}, {1}, {5}},
}

func hugeCounts(c *fw.Ctx) {
	for ci := range hugeCases {
		if !c.MineKey(fmt.Sprintf("hugecounts|%d", ci)) {
			continue
		}
		c.Eval()
		c.Distinct(fmt.Sprintf("hugecounts|%d", ci))
		if fails := hugeCase(ci); len(fails) > 0 {
			raw, _ := json.Marshal(map[string]interface{}{"huge_counts_case": ci})
			c.Violate("hugecounts|introspection|"+firstWord(fails[0]), strings.Join(fails, "\n")+fmt.Sprintf("\nhand-built file: one optional int32 column, one chunk, pages of %v values (all null)", hugeCases[ci]), "hugecounts", json.RawMessage(raw))
		}
	}
}

func hugeCase(ci int) []string {
	pages := hugeCases[ci]
	{
		file := []byte("PAR1")
		var want []*refpq.TS
		var offs []int
		var total int64
		for _, p := range pages {
			// definition levels: one RLE run of p.n zeros, width 1
			var lv []byte
			h := uint64(p.n) << 1
			for h >= 0x80 {
				lv = append(lv, byte(h)|0x80)
				h >>= 7
			}
			lv = append(lv, byte(h), 0)
			body := []byte{byte(len(lv)), 0, 0, 0}
			body = append(body, lv...)
			dph := (&refpq.TS{}).Set(1, refpq.VI32(p.n)).Set(2, refpq.VI32(0)).Set(3, refpq.VI32(3)).Set(4, refpq.VI32(3))
			ph := (&refpq.TS{}).Set(1, refpq.VI32(0)).Set(2, refpq.VI32(int64(len(body)))).Set(3, refpq.VI32(int64(len(body)))).Set(5, refpq.VStruct(dph))
			offs = append(offs, len(file))
			file = append(file, refpq.EncodeStruct(ph)...)
			file = append(file, body...)
			want = append(want, ph)
			total += p.n
		}
		size := int64(len(file) - 4)
		cmd := (&refpq.TS{}).Set(1, refpq.VI32(1)).Set(2, refpq.VList(refpq.TI32, []refpq.TVal{refpq.VI32(0), refpq.VI32(3)})).
			Set(3, refpq.VList(refpq.TBinary, []refpq.TVal{refpq.VStr("v")})).Set(4, refpq.VI32(0)).Set(5, refpq.VI64(total)).
			Set(6, refpq.VI64(size)).Set(7, refpq.VI64(size)).Set(9, refpq.VI64(4))
		cc := (&refpq.TS{}).Set(2, refpq.VI64(4)).Set(3, refpq.VStruct(cmd))
		rg := (&refpq.TS{}).Set(1, refpq.VList(refpq.TStruct, []refpq.TVal{refpq.VStruct(cc)})).Set(2, refpq.VI64(size)).Set(3, refpq.VI64(total))
		root := (&refpq.TS{}).Set(4, refpq.VStr("root")).Set(5, refpq.VI32(1))
		leaf := (&refpq.TS{}).Set(1, refpq.VI32(1)).Set(3, refpq.VI32(1)).Set(4, refpq.VStr("v"))
		fmd := (&refpq.TS{}).Set(1, refpq.VI32(1)).Set(2, refpq.VList(refpq.TStruct, []refpq.TVal{refpq.VStruct(root), refpq.VStruct(leaf)})).
			Set(3, refpq.VI64(total)).Set(4, refpq.VList(refpq.TStruct, []refpq.TVal{refpq.VStruct(rg)}))
		foot := refpq.EncodeStruct(fmd)
		file = append(file, foot...)
		file = append(file, byte(len(foot)), byte(len(foot)>>8), byte(len(foot)>>16), byte(len(foot)>>24))
		file = append(file, "PAR1"...)
		var fails []string
		pm := fw.Protect(func() {
			meta, err := parquet.ReadMetaData(bytes.NewReader(file))
			if err != nil {
				fails = append(fails, "ReadMetaData failed on a valid file: "+err.Error())
				return
			}
			var diffs []string
			cmpThrift("FileMetaData", reflect.ValueOf(meta), fmd, &diffs)
			fails = append(fails, diffs...)
			hs, err := parquet.PageHeaders(meta, bytes.NewReader(file))
			if err != nil {
				fails = append(fails, "PageHeaders failed on a valid file: "+err.Error())
				return
			}
			if len(hs) != len(want) {
				fails = append(fails, fmt.Sprintf("PageHeaders returned %d headers, the file holds %d pages", len(hs), len(want)))
			} else {
				for i := range hs {
					cmpThrift(fmt.Sprintf("PageHeaders[%d]", i), reflect.ValueOf(&hs[i]), want[i], &fails)
				}
			}
			rem := total
			for i := range want {
				got, err := parquet.PageHeadersAtOffset(bytes.NewReader(file), int64(offs[i]), rem)
				if err != nil {
					fails = append(fails, fmt.Sprintf("PageHeadersAtOffset from page %d (n=%d): %v", i, rem, err))
				} else if len(got) != len(want)-i {
					fails = append(fails, fmt.Sprintf("PageHeadersAtOffset from page %d (n=%d): %d headers returned, %d pages there", i, rem, len(got), len(want)-i))
				}
				rem -= pages[i].n
			}
		})
		if pm != "" {
			fails = append(fails, "panic: "+pm)
		}
		return fails
	}
}

func firstWord(s string) string {
	for i, ch := range s {
		if ch == ' ' || ch == ':' || ch == '[' {
			return s[:i]
		}
	}
	return s
}

func judge(t *sut.Target, recs []refpq.Val, batches []int, page int, codec sut.Codec) []oracle.Failure {
	file, fails := oracle.Run(t, recs, batches, page, codec, oracle.NoScramble)
	if len(fails) > 0 {
		return fails
	}
	return checkFile(file)
}

func run(c *fw.Ctx) {
	hugeCounts(c)
	families.RunAllWith(c, oracle.NoScramble, families.ForC16(c.Thorough()), judge)
}

func replay(c *fw.Ctx, kind string, data json.RawMessage) string {
	if kind == "hugecounts" {
		var hc struct {
			Case int `json:"huge_counts_case"`
		}
		if err := json.Unmarshal(data, &hc); err != nil || hc.Case < 0 || hc.Case >= len(hugeCases) {
			return "bad case"
		}
		return strings.Join(hugeCase(hc.Case), "\n")
	}
	var cs oracle.Case
	if err := json.Unmarshal(data, &cs); err != nil {
		return "bad case: " + err.Error()
	}
	t := sut.Get(cs.Target)
	recs, err := refpq.RecsFromJSON(t.Schema(), cs.Records)
	if err != nil {
		return err.Error()
	}
	fails := judge(t, recs, cs.Batches, cs.Page, sut.Codec(cs.Codec))
	if len(fails) == 0 {
		return ""
	}
	return fmt.Sprint(fails)
}

// Main runs the check.
func Main() {
	fw.Main(fw.Spec{
		ID:    "C16",
		Level: "exploration",
		Rule: "for every file of the exhaustive families (boundary product over record sequences x batch partitions x page sizes x codecs; long runs; structure-exhaustive on nested shapes): ReadMetaData is compared field by field (thrift ids, presence and values) with the reference parser's footer tree; PageHeaders(footer, r) with the independent sequential walk of the file (one header per page, file order, every field); " +
			"PageHeadersAtOffset(r, off, n) for every chunk start with n = chunk num_values and for every later page start with n = values remaining in the chunk; all three calls through a bytes.Reader and through sources that fragment their reads (1 byte, 3 bytes with data+EOF, 64 bytes). distinct = (family, case tag). Plus four hand-built files whose single chunk holds 2^31-1 .. 3*2^30 values in pages of up to 2^30 nulls (counts in the 32-bit range), checked against the headers written",
		Assumptions: []string{
			"only files written by the library's own writer are inspected (all valid per C02); foreign files are the subject of C04",
		},
		Run:            run,
		Replay:         replay,
		QuickBudget:    100 * time.Second,
		ThoroughBudget: 25 * time.Minute,
	})
}
