// Package c17: bit-packing of 8-value groups is exactly invertible and
// spec-ordered.  Complete enumeration of the finite domain through the real
// internal/bitpack (re-exported under the verif build tag).
package c17

import (
	"encoding/json"
	"fmt"
	"time"

	"github.com/parsyl/parquet"
	"verif/mc/fw"
	"verif/mc/refpq"
)

type gcase struct {
	Width int    `json:"width"`
	X     uint32 `json:"packed_le_uint32"`
}

// checkOne checks group x of width w: x is the little-endian integer whose
// bits [w*i, w*(i+1)) hold value i (the specification's LSB-first layout).
func checkOne(w int, x uint32, buf []byte) string {
	var vals [8]uint8
	mask := uint32(1)<<uint(w) - 1
	for i := 0; i < 8; i++ {
		vals[i] = uint8(x >> (uint(w) * uint(i)) & mask)
	}
	var want [4]byte
	want[0], want[1], want[2], want[3] = byte(x), byte(x>>8), byte(x>>16), byte(x>>24)
	got := parquet.VerifPack(buf[:0], w, vals[:])
	if len(got) != w {
		return fmt.Sprintf("Pack(width %d, %v) returned %d bytes", w, vals, len(got))
	}
	for i := 0; i < w; i++ {
		if got[i] != want[i] {
			return fmt.Sprintf("Pack(width %d, %v) = %x, specification layout is %x", w, vals, got, want[:w])
		}
	}
	un := parquet.VerifUnpack(w, want[:w])
	if len(un) != 8 {
		return fmt.Sprintf("Unpack(width %d, %x) returned %d values", w, want[:w], len(un))
	}
	for i := 0; i < 8; i++ {
		if un[i] != vals[i] {
			return fmt.Sprintf("Unpack(width %d, %x) = %v, specification says %v", w, want[:w], un, vals)
		}
	}
	// the two round trips, directly
	un2 := parquet.VerifUnpack(w, got)
	for i := 0; i < 8; i++ {
		if un2[i] != vals[i] {
			return fmt.Sprintf("Unpack(Pack(%v)) = %v (width %d)", vals, un2, w)
		}
	}
	re := parquet.VerifPack(buf[4:4], w, un)
	for i := 0; i < w; i++ {
		if re[i] != want[i] {
			return fmt.Sprintf("Pack(Unpack(%x)) = %x (width %d)", want[:w], re, w)
		}
	}
	return ""
}

func run(c *fw.Ctx) {
	buf := make([]byte, 16)
	// self-check of the closed-form oracle against the bit-by-bit reference
	// packer of refpq on a slice of the domain
	for w := 1; w <= 4; w++ {
		for x := uint32(0); x < 4096; x++ {
			xx := x * 2654435761 & (uint32(1)<<uint(8*w) - 1)
			if w == 4 {
				xx = x * 2654435761
			}
			var vals [8]uint8
			for i := 0; i < 8; i++ {
				vals[i] = uint8(xx >> (uint(w) * uint(i)) & (1<<uint(w) - 1))
			}
			ref := refpq.PackGroup(vals[:], w)
			for i := 0; i < w; i++ {
				if ref[i] != byte(xx>>(8*uint(i))) {
					panic("oracle self-check failed")
				}
			}
		}
	}
	// Pack and Unpack are functions of (width, input) alone: the same values
	// or bytes are pushed through every width they fit in turn, in every order
	// of two widths, so that a result remembered from the previous call (keyed
	// by the values or bytes but not the width) is seen.
	if c.Shard == 0 {
		alternation(c)
	}
	c.Bound("widths", "1..4")
	c.Bound("domain", "every 8-tuple of w-bit values = every w-byte group (2^8 + 2^16 + 2^24 + 2^32)")
	for w := 1; w <= 4; w++ {
		total := uint64(1) << uint(8*w)
		per := total / uint64(c.Shards)
		lo := per * uint64(c.Shard)
		hi := lo + per
		if c.Shard == c.Shards-1 {
			hi = total
		}
		done := uint64(0)
		// a result handed out by Unpack must stay what it was: the slice
		// returned for the previous group is compared again after the next call
		var prev []uint8
		var prevX uint64
		for x := lo; x < hi; x++ {
			var le [4]byte
			le[0], le[1], le[2], le[3] = byte(x), byte(x>>8), byte(x>>16), byte(x>>24)
			if x&0xff == 0 { // every 256th group: keeps the hot loop cheap
				prev, prevX = parquet.VerifUnpack(w, le[:w]), x
			}
			if msg := checkOne(w, uint32(x), buf); msg != "" {
				c.Violate(fmt.Sprintf("w%d:%s", w, firstWords(msg)), msg, "group", gcase{w, uint32(x)})
				if c.Spec != nil && len(msg) > 0 {
					// keep going: count all, but only distinct keys are kept
				}
			}
			if prev != nil && x == prevX+1 {
				mask := uint64(1)<<uint(w) - 1
				for i := 0; i < 8; i++ {
					if uint64(prev[i]) != prevX>>(uint(w)*uint(i))&mask {
						msg := fmt.Sprintf("the slice returned by Unpack(width %d) for group %#x changed after a later Unpack call on another group (results share storage)", w, prevX)
						c.Violate(fmt.Sprintf("w%d:Unpack result not retained", w), msg, "retain", gcase{w, uint32(prevX)})
						break
					}
				}
				prev = nil
			}
			done++
			if x&0xffffff == 0 && c.Expired() {
				c.Capped(fmt.Sprintf("time budget hit at width %d after %d of %d groups in shard", w, done, hi-lo))
				break
			}
		}
		c.EvalN(int(done))
		c.DistinctN(int64(done))
		c.Count(fmt.Sprintf("groups_width_%d", w), int64(done))
		if c.Shard == 0 {
			c.Sample(map[string]interface{}{"width": w, "first_group_packed": lo, "last_group_packed": hi - 1})
		}
	}
}

// alternation: for every group whose values fit width wa, Pack/Unpack at wa
// then at wb (and the reverse) for every wb in which the values also fit; all
// 2^8 and 2^16 groups of width 1 and 2, a stride through widths 3 and 4.
func alternation(c *fw.Ctx) {
	buf := make([]byte, 16)
	n := 0
	for wa := 1; wa <= 4; wa++ {
		total := uint64(1) << uint(8*wa)
		step := uint64(1)
		if wa >= 3 {
			step = total/(1<<18) + 1
			if step%2 == 0 {
				step++
			}
		}
		for x := uint64(0); x < total; x += step {
			var vals [8]uint8
			mask := uint64(1)<<uint(wa) - 1
			for i := 0; i < 8; i++ {
				vals[i] = uint8(x >> (uint(wa) * uint(i)) & mask)
			}
			for wb := wa + 1; wb <= 4; wb++ {
				// the same eight values as a group of width wb
				var y uint64
				for i := 0; i < 8; i++ {
					y |= uint64(vals[i]) << (uint(wb) * uint(i))
				}
				for _, order := range [][2][2]uint64{{{uint64(wa), x}, {uint64(wb), y}}, {{uint64(wb), y}, {uint64(wa), x}}} {
					for _, st := range order {
						if msg := checkOne(int(st[0]), uint32(st[1]), buf); msg != "" {
							c.Violate(fmt.Sprintf("w%d:%s after a call at another width", st[0], firstWords(msg)), msg+fmt.Sprintf(" (the previous call used the same values at width %d or %d)", wa, wb), "alternation", gcase{int(st[0]), uint32(st[1])})
						}
					}
					n++
				}
			}
		}
	}
	c.Count("width_alternation_sequences", int64(n))
	// packing a buffer of values into its own storage (dst = vals[:0]): the
	// values of the group must be read before the destination is written.  All
	// groups of width 1 and 2, a stride through widths 3 and 4.
	m := 0
	for w := 1; w <= 4; w++ {
		total := uint64(1) << uint(8*w)
		step := uint64(1)
		if w >= 3 {
			step = total/(1<<18) + 1
			if step%2 == 0 {
				step++
			}
		}
		mask := uint64(1)<<uint(w) - 1
		for x := uint64(0); x < total; x += step {
			store := make([]byte, 8, 16)
			for i := 0; i < 8; i++ {
				store[i] = uint8(x >> (uint(w) * uint(i)) & mask)
			}
			got := parquet.VerifPack(store[:0], w, store[:8])
			m++
			ok := len(got) == w
			for i := 0; ok && i < w; i++ {
				ok = got[i] == byte(x>>(8*uint(i)))
			}
			if !ok {
				c.Violate(fmt.Sprintf("w%d:Pack into the values' own storage", w), fmt.Sprintf("Pack(vals[:0], %d, vals) = %x for group %#x, specification layout is the little-endian bytes of that number", w, got, x), "inplace", gcase{w, uint32(x)})
				break
			}
		}
	}
	c.Count("in_place_pack_calls", int64(m))
}

func firstWords(s string) string {
	// key by operation only so that one defect is one violation
	for i, ch := range s {
		if ch == '(' {
			return s[:i]
		}
	}
	return s
}

func replay(c *fw.Ctx, kind string, data json.RawMessage) string {
	var g gcase
	if err := json.Unmarshal(data, &g); err != nil {
		return "bad case: " + err.Error()
	}
	if kind == "retain" {
		var le [4]byte
		le[0], le[1], le[2], le[3] = byte(g.X), byte(g.X>>8), byte(g.X>>16), byte(g.X>>24)
		first := parquet.VerifUnpack(g.Width, le[:g.Width])
		snapshot := append([]uint8(nil), first...)
		other := ^g.X
		le[0], le[1], le[2], le[3] = byte(other), byte(other>>8), byte(other>>16), byte(other>>24)
		parquet.VerifUnpack(g.Width, le[:g.Width])
		for i := range snapshot {
			if snapshot[i] != first[i] {
				return "the slice returned by Unpack changed after a later Unpack call (results share storage)"
			}
		}
		return ""
	}
	if kind == "inplace" {
		store := make([]byte, 8, 16)
		mask := uint32(1)<<uint(g.Width) - 1
		for i := 0; i < 8; i++ {
			store[i] = uint8(g.X >> (uint(g.Width) * uint(i)) & mask)
		}
		got := parquet.VerifPack(store[:0], g.Width, store[:8])
		for i := 0; i < g.Width; i++ {
			if len(got) != g.Width || got[i] != byte(g.X>>(8*uint(i))) {
				return fmt.Sprintf("Pack(vals[:0], %d, vals) = %x for group %#x", g.Width, got, g.X)
			}
		}
		return ""
	}
	if kind == "alternation" {
		// the same eight values at every other width first, then the case itself
		buf := make([]byte, 16)
		var vals [8]uint8
		mask := uint32(1)<<uint(g.Width) - 1
		fits := uint8(0)
		for i := 0; i < 8; i++ {
			vals[i] = uint8(g.X >> (uint(g.Width) * uint(i)) & mask)
			if vals[i] > fits {
				fits = vals[i]
			}
		}
		for w := 1; w <= 4; w++ {
			if w == g.Width || int(fits) >= 1<<uint(w) {
				continue
			}
			var y uint32
			for i := 0; i < 8; i++ {
				y |= uint32(vals[i]) << (uint(w) * uint(i))
			}
			checkOne(w, y, buf)
			if msg := checkOne(g.Width, g.X, buf); msg != "" {
				return msg
			}
		}
		return ""
	}
	return checkOne(g.Width, g.X, make([]byte, 16))
}

// Main runs the check.
func Main() {
	fw.Main(fw.Spec{
		ID:    "C17",
		Level: "exploration",
		Rule: "complete enumeration: for w=1..4 every integer x < 2^(8w) is both a value group (value i = bits [w*i, w*(i+1))) and a byte group (little-endian bytes of x); " +
			"checked Pack(g)=LE(x), Unpack(LE(x))=g, Unpack(Pack(g))=g, Pack(Unpack(b))=b through the real internal/bitpack; every case is distinct by construction. The sweep is per width; in addition the same values are pushed through two widths in turn, in both orders (all groups of width 1 and 2, a stride through 3), so a result carried over from the previous call is seen",
		Assumptions: []string{
			"the oracle is the closed form 'value i occupies bits [w*i, w*(i+1)) of the little-endian bit string', self-checked against a bit-by-bit packer at start-up",
			"Pack/Unpack are reached through the verif-tag re-export parquet.VerifPack/VerifUnpack (thin wrappers)",
		},
		Run:            run,
		Replay:         replay,
		QuickBudget:    150 * time.Second,
		ThoroughBudget: 20 * time.Minute,
	})
}
