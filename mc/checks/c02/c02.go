// Package c02: every written file is structurally valid Parquet with a
// truthful footer.  Same input/configuration space as C01 plus footer-stress
// shapes; the oracle is the independent reference parser/validator.
package c02

import (
	"encoding/json"
	"fmt"
	"time"

	"verif/mc/families"
	"verif/mc/fw"
	"verif/mc/oracle"
)

func run(c *fw.Ctx) {
	fams := families.ForC01(c.Thorough())
	fams = append(fams, families.ForC02Extra(c.Thorough())...)
	families.RunAll(c, oracle.Valid, fams)
}

func replay(c *fw.Ctx, kind string, data json.RawMessage) string {
	var cs oracle.Case
	if err := json.Unmarshal(data, &cs); err != nil {
		return "bad case: " + err.Error()
	}
	fails := cs.Replay()
	if len(fails) == 0 {
		return ""
	}
	return fmt.Sprint(fails)
}

// Main runs the check.
func Main() {
	fw.Main(fw.Spec{
		ID:    "C02",
		Level: "exploration",
		Rule: "every file produced over C01's exhaustive input/configuration families (A boundary product, B optional-bool packing, C value sweep, D long runs, E structure-exhaustive) plus nested / same-named-group shapes is parsed by the independent reference validator: " +
			"magic, footer length, schema tree well-formed and equal to the struct's schema, leaves <-> chunks 1:1 in order, offsets (footer walk == sequential walk from byte 4), compressed/uncompressed sizes, value/row counts, codec, per-page record cap, record-boundary starts, section lengths. Distinct by (family, target, records, batches, page size, codec).",
		Assumptions: []string{
			"the reference validator (mc/refpq) stands in for 'any other Parquet implementation'; it is self-checked on a third-party file and by its own encoder/decoder round trips",
			"lenient where the property is silent: file_offset may be 0 or the chunk start; encodings need only contain PLAIN; row-group total_byte_size may be the compressed or the uncompressed sum; UTF8 annotation optional",
		},
		Run:            run,
		Replay:         replay,
		QuickBudget:    110 * time.Second,
		ThoroughBudget: 30 * time.Minute,
	})
}
