// Package c07: level streams are valid RLE/bit-packed hybrid; encode and
// decode are inverses.  Control-state search of the real encoder plus
// exhaustive short sequences, run-structured families and all-plans decoder
// enumeration, against a strict specification decoder.
package c07

import (
	"bytes"
	"encoding/json"
	"fmt"
	"reflect"
	"strings"
	"time"

	sch "github.com/parsyl/parquet/schema"

	"github.com/parsyl/parquet"
	"verif/mc/fw"
	"verif/mc/refpq"
)

type seqCase struct {
	Width int             `json:"width"`
	Vals  []int           `json:"values,omitempty"`
	Runs  [][2]int        `json:"runs,omitempty"` // (value, length) pairs, expanded to values
	Plan  []refpq.RunSpec `json:"plan,omitempty"` // decoder cases: explicit run plan
	Part  string          `json:"part"`
}

func (s seqCase) values() []uint8 {
	var out []uint8
	for _, v := range s.Vals {
		out = append(out, uint8(v))
	}
	for _, r := range s.Runs {
		for i := 0; i < r[1]; i++ {
			out = append(out, uint8(r[0]))
		}
	}
	return out
}

var gctx *fw.Ctx

func guard(kind string, width int, vals []uint8, plan []refpq.RunSpec) {
	if gctx != nil {
		gctx.Guard(kind, seqCase{Width: width, Vals: toInts(vals), Plan: plan, Part: "guarded"})
	}
}

// encodeReal drives the real encoder.
func encodeReal(width int, vals []uint8) ([]byte, string) {
	var out []byte
	p := fw.Protect(func() {
		enc, err := parquet.VerifNewRLE(int32(width), len(vals))
		if err != nil {
			panic(err)
		}
		for _, v := range vals {
			enc.Write(v)
		}
		out = enc.Bytes()
	})
	return out, p
}

// decodeReal drives the real decoder.
func decodeReal(width int, stream []byte, extra int) (vals []uint8, n int, err error, pmsg string) {
	pmsg = fw.Protect(func() {
		dec, e := parquet.VerifNewRLE(int32(width), 0)
		if e != nil {
			panic(e)
		}
		// the decoder is handed a reader that continues past the stream (as
		// in a page: the values follow); it must consume exactly the stream
		buf := append(append([]byte(nil), stream...), bytes.Repeat([]byte{0xAA}, extra)...)
		vals, n, err = dec.Read(bytes.NewBuffer(buf))
	})
	return
}

// checkEncode: real encoder output must be a well-formed stream that the
// specification decoder turns back into vals; the library decoder must agree.
func checkEncode(width int, vals []uint8) string {
	if len(vals) < 600 {
		guard("seq", width, vals, nil)
	}
	stream, p := encodeReal(width, vals)
	if p != "" {
		return "encoder panicked: " + p
	}
	got, runs, used, bad, err := refpq.DecodeHybrid(stream, width, len(vals))
	if err != nil {
		return fmt.Sprintf("specification decoder rejects the encoder's output: %v (stream %x)", err, head(stream))
	}
	if len(bad) > 0 {
		return fmt.Sprintf("encoder output is not well-formed: %v (runs %v)", bad, runs)
	}
	if used != len(stream) {
		return fmt.Sprintf("length prefix covers %d bytes but Bytes() returned %d", used, len(stream))
	}
	if !bytes.Equal(got, vals) {
		return fmt.Sprintf("specification decoder reads different values back (first difference at %d)", firstDiff(got, vals))
	}
	return checkDecode(width, vals, stream)
}

// checkDecode: the library decoder accepts the well-formed stream, returns
// the values (possibly with < 8 padding values appended, as the page reader
// trims to num_values) and consumes exactly the stream's bytes.
func checkDecode(width int, vals []uint8, stream []byte) string {
	got, n, err, p := decodeReal(width, stream, 9)
	if p != "" {
		return "decoder panicked: " + p
	}
	if err != nil {
		return fmt.Sprintf("library decoder rejects a well-formed stream: %v (stream %x)", err, head(stream))
	}
	if n != len(stream) {
		return fmt.Sprintf("library decoder reports %d bytes consumed, the stream has %d", n, len(stream))
	}
	if len(got) < len(vals) || len(got)-len(vals) >= 8 {
		return fmt.Sprintf("library decoder returned %d values for a stream of %d", len(got), len(vals))
	}
	if !bytes.Equal(got[:len(vals)], vals) {
		return fmt.Sprintf("library decoder returns different values (first difference at %d)", firstDiff(got, vals))
	}
	return ""
}

func head(b []byte) []byte {
	if len(b) > 48 {
		return b[:48]
	}
	return b
}

func firstDiff(a, b []uint8) int {
	for i := 0; i < len(a) && i < len(b); i++ {
		if a[i] != b[i] {
			return i
		}
	}
	if len(a) < len(b) {
		return len(a)
	}
	return len(b)
}

// ------------------------------------------------------------ part 1: E-ctl

type ctlKey struct {
	buf, rep, grp int
	open          bool
}

// ctlSearch: BFS over the encoder's control state under {same, different}.
func ctlSearch(c *fw.Ctx, width int, assign int) {
	next := func(prev uint8, first bool, op byte) uint8 {
		max := uint8(1)<<uint(width) - 1
		if op == 'S' {
			return prev
		}
		if assign == 0 {
			if prev == 0 {
				return max
			}
			return 0
		}
		return (prev + 1) & max
	}
	build := func(path []byte) ([]uint8, ctlKey, []byte, string) {
		vals := make([]uint8, 0, len(path))
		var key ctlKey
		var out []byte
		p := fw.Protect(func() {
			enc, _ := parquet.VerifNewRLE(int32(width), 0)
			var prev uint8
			for i, op := range path {
				v := next(prev, i == 0, op)
				enc.Write(v)
				vals = append(vals, v)
				prev = v
			}
			b, r, g, h, _ := enc.VerifState()
			if r > 9 {
				r = 9
			}
			key = ctlKey{b, r, g, h >= 0}
			out = enc.Bytes()
		})
		return vals, key, out, p
	}
	seen := map[ctlKey]bool{}
	_, k0, _, _ := build(nil)
	seen[k0] = true
	frontier := [][]byte{nil}
	states, trans := 0, 0
	maxDepth := 0
	for len(frontier) > 0 {
		var nf [][]byte
		for _, path := range frontier {
			states++
			for _, op := range []byte{'S', 'D'} {
				np := append(append([]byte(nil), path...), op)
				vals, key, stream, p := build(np)
				trans++
				c.Eval()
				msg := ""
				if p != "" {
					msg = "encoder panicked: " + p
				} else {
					got, runs, used, bad, err := refpq.DecodeHybrid(stream, width, len(vals))
					switch {
					case err != nil:
						msg = fmt.Sprintf("specification decoder rejects the encoder's output: %v", err)
					case len(bad) > 0:
						msg = fmt.Sprintf("encoder output is not well-formed: %v (last runs %v)", bad, tail(runs))
					case used != len(stream):
						msg = "length prefix does not cover the stream"
					case !bytes.Equal(got, vals):
						msg = fmt.Sprintf("round trip differs at %d of %d", firstDiff(got, vals), len(vals))
					default:
						msg = checkDecode(width, vals, stream)
					}
				}
				if msg != "" {
					var iv []int
					for _, v := range vals {
						iv = append(iv, int(v))
					}
					c.Violate(fmt.Sprintf("ctl|w%d|%s", width, classify(msg)), msg+fmt.Sprintf("\n(after %d values, control state %+v)", len(vals), key), "seq", seqCase{Width: width, Vals: iv, Part: "ctl"})
				}
				if !seen[key] {
					seen[key] = true
					nf = append(nf, np)
					if len(np) > maxDepth {
						maxDepth = len(np)
					}
				}
			}
		}
		frontier = nf
		if c.Expired() {
			c.Capped("time budget hit in control-state search")
			break
		}
	}
	c.Count("states", int64(states))
	c.Count("transitions", int64(trans))
	c.Count("traces_validated_against_impl", int64(trans))
	c.DistinctN(int64(states))
	c.Bound(fmt.Sprintf("ctl_w%d_a%d", width, assign), fmt.Sprintf("states=%d transitions=%d max_depth=%d", states, trans, maxDepth))
	if c.WantSample() {
		c.Sample(map[string]interface{}{"part": "ctl", "width": width, "assignment": assign, "states": states, "max_depth_values": maxDepth})
	}
}

func tail(r []refpq.Run) []refpq.Run {
	if len(r) > 3 {
		return r[len(r)-3:]
	}
	return r
}

func classify(msg string) string {
	for i, ch := range msg {
		if ch == ':' || ch == '(' {
			return msg[:i]
		}
	}
	if len(msg) > 60 {
		return msg[:60]
	}
	return msg
}

// ------------------------------------------------------------ part 2

func exhaustiveShort(c *fw.Ctx, width, maxLen int) {
	base := 1 << uint(width)
	for l := 0; l <= maxLen; l++ {
		total := 1
		for i := 0; i < l; i++ {
			total *= base
		}
		vals := make([]uint8, l)
		for x := 0; x < total; x++ {
			if !c.Mine() {
				continue
			}
			if x&1023 == 0 && c.Expired() {
				c.Capped(fmt.Sprintf("time budget hit in exhaustive sequences width %d length %d", width, l))
				return
			}
			y := x
			for i := 0; i < l; i++ {
				vals[i] = uint8(y % base)
				y /= base
			}
			c.Eval()
			c.DistinctN(1)
			if msg := checkEncode(width, vals); msg != "" {
				var iv []int
				for _, v := range vals {
					iv = append(iv, int(v))
				}
				c.Violate(fmt.Sprintf("short|w%d|%s", width, classify(msg)), msg, "seq", seqCase{Width: width, Vals: iv, Part: "short"})
			}
		}
	}
	if c.WantSample() {
		c.Sample(map[string]interface{}{"part": "exhaustive short sequences", "width": width, "max_len": maxLen})
	}
}

// ------------------------------------------------------------ part 3

func runStructured(c *fw.Ctx, width int, thorough bool) {
	max := 1<<uint(width) - 1
	// 64, 8192 and 2^20 equal values are where the run header (count<<1 as a
	// varint) grows to 2, 3 and 4 bytes (5 bytes would need 2^27 values in one
	// run: beyond the reference decoder's own sanity limit of 2^26 values per
	// stream, not covered)
	special := []int{63, 64, 127, 128, 503, 504, 505, 8191, 8192, 8193, 16383, 16384, 1<<20 - 1, 1 << 20, 1<<20 + 1}
	if thorough {
		special = append(special, 70000, 1<<22+3)
	}
	emit := func(runs [][2]int) {
		if !c.Mine() {
			return
		}
		c.Eval()
		sc := seqCase{Width: width, Runs: runs, Part: "runs"}
		c.Distinct(fmt.Sprintf("runs|%d|%v", width, runs))
		if msg := checkEncode(width, sc.values()); msg != "" {
			c.Violate(fmt.Sprintf("runs|w%d|%s", width, classify(msg)), msg+fmt.Sprintf("\nruns (value,length): %v", runs), "seq", sc)
		}
	}
	vals := []int{0, max}
	if width > 1 {
		vals = []int{0, max, 1}
	}
	maxRuns := 3
	lens := []int{1, 2, 3, 7, 8, 9, 15, 16, 17}
	if thorough {
		maxRuns = 4
		lens = []int{1, 2, 3, 4, 5, 6, 7, 8, 9, 10, 15, 16, 17}
	}
	// (a) up to maxRuns runs with every combination of the short lengths
	var rec func(prefix [][2]int, depth int)
	rec = func(prefix [][2]int, depth int) {
		if depth > 0 {
			emit(append([][2]int(nil), prefix...))
		}
		if depth == maxRuns || c.Expired() {
			return
		}
		for _, l := range lens {
			for _, v := range vals {
				if depth > 0 && prefix[depth-1][0] == v {
					continue
				}
				rec(append(prefix, [2]int{v, l}), depth+1)
			}
		}
	}
	rec(nil, 0)
	// (b) special lengths at every alignment 0..7 of a non-repeating prefix,
	// followed by a short non-repeating tail
	for _, sl := range special {
		for align := 0; align < 8; align++ {
			for _, tailLen := range []int{0, 1, 9} {
				var runs [][2]int
				for i := 0; i < align; i++ {
					runs = append(runs, [2]int{i % 2 * max, 1})
				}
				v := 0
				if align%2 == 0 {
					v = max
				}
				runs = append(runs, [2]int{v, sl})
				for i := 0; i < tailLen; i++ {
					runs = append(runs, [2]int{(i + 1 + v) % 2 * max, 1})
				}
				emit(runs)
			}
		}
	}
	// (b') every run length in the mid range, alone and after one odd value
	midMax := 2100
	if thorough {
		midMax = 9000
	}
	for l := 1; l <= midMax; l++ {
		emit([][2]int{{max, l}})
		emit([][2]int{{0, 1}, {max, l}, {0, 1}})
	}
	// (c) the 63-group boundary: prefixes of 61..65 non-repeating groups
	// (488..520 alternating values) with every residue 0..7, then runs
	for groups := 61; groups <= 65; groups++ {
		for extra := 0; extra < 8; extra++ {
			for _, after := range [][2]int{{0, 0}, {max, 8}, {max, 20}, {0, 1}} {
				var runs [][2]int
				n := groups*8 + extra
				for i := 0; i < n; i++ {
					runs = append(runs, [2]int{i % 2 * max, 1})
				}
				if after[1] > 0 {
					runs = append(runs, after)
				}
				emit(runs)
			}
		}
	}
	// (d) two and three long bit-packed stretches separated by an RLE run
	for _, g1 := range []int{62, 63, 64, 126, 127} {
		for _, mid := range []int{8, 9, 16} {
			var runs [][2]int
			for i := 0; i < g1*8; i++ {
				runs = append(runs, [2]int{i % 2 * max, 1})
			}
			runs = append(runs, [2]int{max, mid})
			for i := 0; i < 70*8; i++ {
				runs = append(runs, [2]int{i % 2 * max, 1})
			}
			emit(runs)
		}
	}
	if c.WantSample() {
		c.Sample(map[string]interface{}{"part": "run-structured", "width": width, "example_runs_value_length": [][2]int{{0, 1}, {max, 504}, {0, 1}}})
	}
}

// ------------------------------------------------------------ part 4

func decoderPlans(c *fw.Ctx, width, maxLen int) {
	base := 1 << uint(width)
	for l := 1; l <= maxLen; l++ {
		total := 1
		for i := 0; i < l; i++ {
			total *= base
		}
		vals := make([]uint8, l)
		for x := 0; x < total; x++ {
			if !c.Mine() {
				continue
			}
			if c.Expired() {
				c.Capped(fmt.Sprintf("time budget hit in decoder plans width %d length %d", width, l))
				return
			}
			y := x
			for i := 0; i < l; i++ {
				vals[i] = uint8(y % base)
				y /= base
			}
			refpq.AllPlans(vals, func(plan []refpq.RunSpec) bool {
				stream, err := refpq.EncodeHybridPlan(vals, width, plan)
				if err != nil {
					panic("plan encoder: " + err.Error())
				}
				c.Eval()
				c.DistinctN(1)
				// self-check of the plan encoder with the strict decoder
				got, _, _, bad, derr := refpq.DecodeHybrid(stream, width, len(vals))
				if derr != nil || len(bad) > 0 || !bytes.Equal(got, vals) {
					panic(fmt.Sprintf("reference encoder/decoder disagree: %v %v", derr, bad))
				}
				guard("plan", width, vals, plan)
				if msg := checkDecode(width, vals, stream); msg != "" {
					var iv []int
					for _, v := range vals {
						iv = append(iv, int(v))
					}
					c.Violate(fmt.Sprintf("plans|w%d|%s", width, classify(msg)), msg+fmt.Sprintf("\nvalues %v plan %+v", vals, plan), "plan", seqCase{Width: width, Vals: iv, Plan: plan, Part: "plans"})
				}
				return true
			})
		}
	}
	if c.WantSample() {
		c.Sample(map[string]interface{}{"part": "decoder: all run plans", "width": width, "max_len": maxLen, "plans_for_8_equal_values": refpq.CountPlans(make([]uint8, 8))})
	}
}

// long decoder families: bit-packed runs of many groups, long RLE runs,
// multi-byte headers, mixtures.
func decoderLong(c *fw.Ctx, width int) {
	max := uint8(1)<<uint(width) - 1
	bpGroups := []int{1, 63, 64, 65, 127, 128, 200, 8191, 8192}
	rleLens := []int{1, 7, 8, 63, 64, 127, 128, 8191, 8192, 16383, 16384, 1<<20 - 1, 1 << 20}
	mk := func(plan []refpq.RunSpec) ([]uint8, []refpq.RunSpec) {
		var vals []uint8
		for i, r := range plan {
			if r.RLE {
				v := uint8(i) & max
				for k := 0; k < r.N; k++ {
					vals = append(vals, v)
				}
			} else {
				for k := 0; k < r.N*8; k++ {
					vals = append(vals, uint8(k*7+i)&max)
				}
			}
		}
		return vals, plan
	}
	var plans [][]refpq.RunSpec
	for _, g := range bpGroups {
		plans = append(plans, []refpq.RunSpec{{N: g}})
		for _, r := range rleLens {
			plans = append(plans, []refpq.RunSpec{{N: g}, {RLE: true, N: r}})
			plans = append(plans, []refpq.RunSpec{{RLE: true, N: r}, {N: g}})
			plans = append(plans, []refpq.RunSpec{{RLE: true, N: r}, {N: g}, {RLE: true, N: 3}, {N: 2}})
		}
		for _, g2 := range bpGroups {
			plans = append(plans, []refpq.RunSpec{{N: g}, {N: g2}})
		}
	}
	for _, r := range rleLens {
		plans = append(plans, []refpq.RunSpec{{RLE: true, N: r}})
		plans = append(plans, []refpq.RunSpec{{RLE: true, N: r}, {RLE: true, N: r}})
	}
	// every run length / group count in the mid range
	for r := 1; r <= 2100; r++ {
		plans = append(plans, []refpq.RunSpec{{N: 1}, {RLE: true, N: r}})
	}
	for g := 1; g <= 300; g++ {
		plans = append(plans, []refpq.RunSpec{{N: g}, {RLE: true, N: 3}})
	}
	for pi, plan := range plans {
		if !c.Mine() {
			continue
		}
		vals, plan := mk(plan)
		// also with a truncated final group (padding): drop up to 7 trailing values
		for drop := 0; drop < 8; drop++ {
			if drop > 0 && plan[len(plan)-1].RLE {
				break
			}
			v := vals[:len(vals)-drop]
			stream, err := refpq.EncodeHybridPlan(v, width, plan)
			if err != nil {
				panic("plan encoder: " + err.Error())
			}
			c.Eval()
			c.Distinct(fmt.Sprintf("dlong|%d|%d|%d", width, pi, drop))
			guard("plan", width, v, plan)
			if msg := checkDecode(width, v, stream); msg != "" {
				c.Violate(fmt.Sprintf("dlong|w%d|%s", width, classify(msg)), msg+fmt.Sprintf("\nplan %+v, %d values", plan, len(v)), "plan", seqCase{Width: width, Vals: toInts(v), Plan: plan, Part: "dlong"})
			}
		}
	}
}

// ------------------------------------------------------------ part 5

// publicAPI drives level sequences of every width through the exported
// column API: OptionalField.DoWrite builds a page (levels via writeLevels,
// i.e. the call site rle.go:80), the reference parser decodes the page
// strictly, and OptionalField.DoRead (readLevels, rle.go:211) must give the
// levels back.
func publicAPI(c *fw.Ctx, width int, seqs [][]uint8) {
	maxDef := 1<<uint(width) - 1
	types := make([]int, maxDef)
	for i := range types {
		types[i] = 1 // optional at every level: max definition level = maxDef
	}
	path := make([]string, maxDef)
	for i := range path {
		path[i] = fmt.Sprintf("g%d", i)
	}
	int32Type := func(se *sch.SchemaElement) { t := sch.Type_INT32; se.Type = &t }
	for si, defs := range seqs {
		if !c.Mine() {
			continue
		}
		c.Eval()
		c.Distinct(fmt.Sprintf("api|%d|%d", width, si))
		sc := seqCase{Width: width, Vals: toInts(defs), Part: "api"}
		msg := ""
		p := fw.Protect(func() {
			fld := parquet.NewOptionalField(path, types, parquet.OptionalFieldUncompressed)
			meta := parquet.New(parquet.Field{Name: strings.Join(path, "."), Path: path, Types: types, Type: int32Type, RepetitionType: parquet.RepetitionOptional})
			fld.Defs = append([]uint8(nil), defs...)
			nvals := 0
			for _, d := range defs {
				if int(d) == maxDef {
					nvals++
				}
			}
			vals := make([]byte, 4*nvals)
			for i := 0; i < nvals; i++ {
				vals[4*i] = byte(i + 1)
			}
			var page bytes.Buffer
			if err := fld.DoWrite(&page, meta, vals, len(defs), nopStats{}); err != nil {
				msg = "DoWrite failed: " + err.Error()
				return
			}
			raw := page.Bytes()
			pg, err := refpq.ParsePageHeader(raw, 0)
			if err != nil {
				msg = "page header: " + err.Error()
				return
			}
			pg.Body = raw[pg.HeaderLen : pg.HeaderLen+pg.Comp]
			leaf := &refpq.Node{Name: "v", Leaf: true, Phys: refpq.PInt32, GoKind: reflect.Int32, DefLevel: maxDef}
			if err := refpq.DecodePage(pg, leaf, refpq.CodecNone); err != nil {
				msg = "the page written through OptionalField.DoWrite is not decodable by the specification: " + err.Error()
				return
			}
			if !bytes.Equal(pg.Defs, defs) {
				msg = fmt.Sprintf("definition levels in the page differ from the ones written (first difference at %d)", firstDiff(pg.Defs, defs))
				return
			}
			rd := parquet.NewOptionalField(path, types, parquet.OptionalFieldUncompressed)
			_, sizes, err := rd.DoRead(bytes.NewReader(raw), parquet.Page{N: len(defs), Size: len(raw), Codec: 0})
			if err != nil {
				msg = "DoRead failed on the page DoWrite produced: " + err.Error()
				return
			}
			if !bytes.Equal(rd.Defs, defs) {
				msg = fmt.Sprintf("DoRead returns different definition levels (first difference at %d of %d)", firstDiff(rd.Defs, defs), len(defs))
				return
			}
			if len(sizes) != 1 || sizes[0] != nvals {
				msg = fmt.Sprintf("DoRead reports %v non-null values, the page has %d", sizes, nvals)
			}
		})
		if p != "" {
			msg = "panic: " + p
		}
		if msg != "" {
			c.Violate(fmt.Sprintf("api|w%d|%s", width, classify(msg)), msg+fmt.Sprintf("\n(width %d, %d levels)", width, len(defs)), "api", sc)
		}
	}
}

type nopStats struct{}

func (nopStats) NullCount() *int64     { return nil }
func (nopStats) DistinctCount() *int64 { return nil }
func (nopStats) Min() []byte           { return nil }
func (nopStats) Max() []byte           { return nil }

// apiSequences: every sequence up to a short length plus the run-structured
// boundary lengths, per width.
func apiSequences(width int, thorough bool) [][]uint8 {
	var out [][]uint8
	base := 1 << uint(width)
	maxLen := map[int]int{1: 9, 2: 5, 3: 4, 4: 3}[width]
	if thorough {
		maxLen = map[int]int{1: 12, 2: 7, 3: 5, 4: 4}[width]
	}
	for l := 1; l <= maxLen; l++ {
		total := 1
		for i := 0; i < l; i++ {
			total *= base
		}
		for x := 0; x < total; x++ {
			v := make([]uint8, l)
			y := x
			for i := range v {
				v[i] = uint8(y % base)
				y /= base
			}
			out = append(out, v)
		}
	}
	max := uint8(base - 1)
	for _, n := range []int{7, 8, 9, 63, 64, 65, 503, 504, 505, 511, 512, 513, 1000, 1017} {
		alt := make([]uint8, n)
		same := make([]uint8, n)
		mixed := make([]uint8, n)
		for i := range alt {
			alt[i] = uint8(i%2) * max
			same[i] = max
			if i < n/2 {
				mixed[i] = max
			} else {
				mixed[i] = uint8(i) & max
			}
		}
		out = append(out, alt, same, mixed)
	}
	return out
}

func toInts(v []uint8) []int {
	out := make([]int, len(v))
	for i, x := range v {
		out[i] = int(x)
	}
	return out
}

func run(c *fw.Ctx) {
	gctx = c
	shortLens := map[int]int{1: 17, 2: 9, 3: 6, 4: 5}
	planLens := map[int]int{1: 12, 2: 7, 3: 5, 4: 4}
	if c.Thorough() {
		shortLens = map[int]int{1: 21, 2: 11, 3: 8, 4: 6}
		planLens = map[int]int{1: 14, 2: 9, 3: 6, 4: 5}
	}
	c.Bound("exhaustive_sequence_max_len_by_width", shortLens)
	c.Bound("all_plans_max_len_by_width", planLens)
	for w := 1; w <= 4; w++ {
		// control-state search is small; shard by (width, assignment)
		for a := 0; a < 2; a++ {
			if (w*2+a)%c.Shards == c.Shard {
				ctlSearch(c, w, a)
			}
		}
	}
	for w := 1; w <= 4; w++ {
		exhaustiveShort(c, w, shortLens[w])
		runStructured(c, w, c.Thorough())
		decoderPlans(c, w, planLens[w])
		decoderLong(c, w)
		publicAPI(c, w, apiSequences(w, c.Thorough()))
	}
}

func replay(c *fw.Ctx, kind string, data json.RawMessage) string {
	var s seqCase
	if err := json.Unmarshal(data, &s); err != nil {
		return "bad case: " + err.Error()
	}
	vals := s.values()
	if kind == "api" {
		return replayAPI(c, s.Width, vals)
	}
	if kind == "plan" {
		stream, err := refpq.EncodeHybridPlan(vals, s.Width, s.Plan)
		if err != nil {
			return "bad plan: " + err.Error()
		}
		return checkDecode(s.Width, vals, stream)
	}
	return checkEncode(s.Width, vals)
}

func replayAPI(c *fw.Ctx, width int, vals []uint8) string {
	// run the single sequence through publicAPI with a private context view
	msg := ""
	sub := fw.NewReplayCtx(c)
	publicAPI(sub, width, [][]uint8{vals})
	if v := sub.FirstViolation(); v != "" {
		msg = v
	}
	return msg
}

// Main runs the check.
func Main() {
	fw.Main(fw.Spec{
		ID:    "C07",
		Level: "model_checking",
		Rule: "(1) breadth-first search of the real rle.RLE encoder's control state (bufCount, min(repeatCount,9), groupCount, header-open) under inputs {same as previous, different}, widths 1-4, two value assignments; every transition is flushed (replayed clone + Bytes()) and decoded by a strict specification decoder and by the library decoder; " +
			"(2) every level sequence up to a length bound per width; (3) run-structured sequences around the 8-value, 63-group and multi-byte-header boundaries at every alignment; (4) library decoder on every legal run plan of every short sequence and on long bit-packed/RLE families; (5) level sequences of every width 1-4 through the exported column API (OptionalField.DoWrite -> reference page decode -> OptionalField.DoRead). " +
			"states/transitions count part (1); evaluations count every encode or decode execution",
		Assumptions: []string{
			"state abstraction: every branch of Write/writeOrAppendBitPackedRun/endPreviousBitPackedRun/writeRLERun/Bytes tests only the keyed fields; values flow only through valBuf/prev into bitpack.Pack (decided completely by C17)",
			"zero-length runs are treated as ill-formed and are not fed to the decoder; padding content is zero",
			"the strict decoder and the plan encoder are the reference; they are cross-checked against each other on every plan",
		},
		Run:            run,
		Replay:         replay,
		QuickBudget:    100 * time.Second,
		ThoroughBudget: 30 * time.Minute,
		MemLimitMB:     3072,
	})
}
