// Package c08: reading does not depend on how the source fragments its
// reads.  Deviation-bounded exploration of the source's answers: every fixed
// chunk size, every single short read at every call (pairs in thorough),
// data-with-EOF, with and without io.ByteReader.
package c08

import (
	"encoding/json"
	"fmt"
	"sort"
	"strings"
	"time"

	"verif/mc/drive"
	"verif/mc/env"
	"verif/mc/families"
	"verif/mc/fw"
	"verif/mc/oracle"
	"verif/mc/refpq"
	"verif/mc/sut"
)

type rcase struct {
	Workload string         `json:"workload"`
	Plan     env.SourcePlan `json:"source_plan"`
}

var thoroughTier bool
var wlCache map[string]families.Workload
var fileCache = map[string][]byte{}

func workloads() map[string]families.Workload {
	if wlCache == nil {
		wlCache = map[string]families.Workload{}
		for _, w := range families.Workloads([]string{"mini", "person"}, families.Codecs3()) {
			wlCache[w.Name] = w
		}
		// every column type x repetition (flat24) and nested repetition
		// (document): the multi-page layout, one codec each in quick
		for _, w := range families.Workloads([]string{"flat24", "document", "nestrep", "nest16"}, families.Codecs3()) {
			if thoroughTier || (strings.HasSuffix(w.Name, "/multipage") && (strings.Contains(w.Name, "flat24/uncompressed") || strings.Contains(w.Name, "document/snappy") || strings.Contains(w.Name, "nestrep/snappy") || strings.Contains(w.Name, "nest16/gzip"))) {
				wlCache[w.Name] = w
			}
		}
		// page headers that shrink and grow inside a column chunk (required
		// columns only: RequiredField.DoRead is the page loop without levels)
		for _, w := range families.HeaderVaryWorkloads(families.Codecs3()) {
			wlCache[w.Name] = w
		}
		// one page of 2.4 MB: fixed chunk sizes from a menu instead of all of them
		for _, w := range families.BigPageWorkloads(families.Codecs3()) {
			wlCache[w.Name] = w
		}
		// pages of exactly 32 768 plain bytes
		for _, w := range families.Pow2PageWorkloads(families.Codecs3()) {
			wlCache[w.Name] = w
		}
	}
	return wlCache
}

func fileOf(w families.Workload) []byte {
	if f, ok := fileCache[w.Name]; ok {
		return f
	}
	t := sut.Get(w.Target)
	var bs [][]interface{}
	g := oracle.GoRecs(t, w.Recs)
	p := 0
	for _, n := range w.Batches {
		bs = append(bs, g[p:p+n])
		p += n
	}
	f, err, pm := drive.WriteFile(t, bs, nil, w.Page, w.Codec, nil)
	if err != nil || pm != "" {
		panic(fmt.Sprintf("workload %s cannot be written: %v %s", w.Name, err, pm))
	}
	fileCache[w.Name] = f
	return f
}

// runPlan reads the workload's file through a source under plan.
func runPlan(w families.Workload, plan env.SourcePlan) (string, *env.Source) {
	t := sut.Get(w.Target)
	src, s := env.NewSource(fileOf(w), plan)
	rr := drive.ReadAll(t, src, len(w.Recs)+8)
	switch {
	case rr.Panic != "":
		return "panic: " + rr.Panic, s
	case rr.OpenErr != nil:
		return "NewParquetReader failed on a valid file: " + rr.OpenErr.Error(), s
	case rr.Err != nil:
		return "Error() = " + rr.Err.Error(), s
	}
	if d := drive.CompareRecords(t.Schema(), w.Recs, rr.Snap); d != "" {
		return "records differ from the unfragmented read: " + d, s
	}
	return "", s
}

func run(c *fw.Ctx) {
	thoroughTier = c.Thorough()
	var names []string
	for n := range workloads() {
		names = append(names, n)
	}
	sort.Strings(names)
	c.Bound("workloads", names)
	for _, name := range names {
		w := workloads()[name]
		for _, br := range []bool{false, true} {
			// baseline
			msg, base := runPlan(w, env.SourcePlan{ByteReader: br})
			if msg != "" {
				c.Violate("baseline|"+w.Target+"|"+fmt.Sprint(w.Codec), "baseline read fails: "+msg, "read", rcase{name, env.SourcePlan{ByteReader: br}})
				continue
			}
			maxReq := 0
			var readIdx []int
			for i, cl := range base.Calls {
				if cl.Kind == "read" {
					readIdx = append(readIdx, i)
					if cl.Want > maxReq {
						maxReq = cl.Want
					}
				}
			}
			try := func(tag string, plan env.SourcePlan) {
				if !c.Mine() {
					return
				}
				c.Eval()
				c.Distinct(name + "|" + tag)
				plan.ByteReader = br
				c.Guard("read", rcase{name, plan})
				msg, _ := runPlan(w, plan)
				if c.WantSample() && c.Shard == 0 {
					c.Sample(rcase{name, plan})
				}
				if msg != "" {
					c.Violate(fmt.Sprintf("%s|%s|%s", w.Target, w.Codec, classify(msg)), msg+"\nplan: "+tag+" workload: "+name, "read", rcase{name, plan})
				}
			}
			// (1) fixed chunk sizes, (4) each with data-with-EOF
			if strings.HasSuffix(name, "/pow2page") {
				if br {
					continue
				}
				for _, ch := range []int{1, 7, 4096, 32768, 32769} {
					try(fmt.Sprintf("br%v|chunk%d", br, ch), env.SourcePlan{Chunk: ch})
					try(fmt.Sprintf("br%v|chunk%d|eofdata", br, ch), env.SourcePlan{Chunk: ch, EOFWithData: true})
				}
				continue
			} else if strings.HasSuffix(name, "/bigpage") {
				// 2.6 MB page: a menu of chunk sizes, then the single deviations below
				for _, ch := range []int{7, 4096, 32768, 65536, 65537, 1000003, 1 << 20, 1<<20 + 1, 2 << 20} {
					try(fmt.Sprintf("br%v|chunk%d", br, ch), env.SourcePlan{Chunk: ch})
					try(fmt.Sprintf("br%v|chunk%d|eofdata", br, ch), env.SourcePlan{Chunk: ch, EOFWithData: true})
				}
			} else {
				for ch := 1; ch <= maxReq; ch++ {
					try(fmt.Sprintf("br%v|chunk%d", br, ch), env.SourcePlan{Chunk: ch})
					if ch <= 8 || ch == maxReq {
						try(fmt.Sprintf("br%v|chunk%d|eofdata", br, ch), env.SourcePlan{Chunk: ch, EOFWithData: true})
					}
				}
			}
			try(fmt.Sprintf("br%v|eofdata", br), env.SourcePlan{EOFWithData: true})
			// (2) single deviations: every read call k, j in {1, 2, len/2, len-1}
			shorts := func(want int) []int {
				m := map[int]bool{}
				for _, j := range []int{1, 2, want / 2, want - 1} {
					if j >= 1 && j < want {
						m[j] = true
					}
				}
				var out []int
				for j := range m {
					out = append(out, j)
				}
				sort.Ints(out)
				return out
			}
			for _, k := range readIdx {
				for _, j := range shorts(base.Calls[k].Want) {
					try(fmt.Sprintf("br%v|k%d|j%d", br, k, j), env.SourcePlan{Dev: map[int]env.Deviation{k: {Short: j}}})
				}
			}
			// (3) pairs of deviations (thorough).  A short read shifts later
			// call indices, so the second deviation is placed on the call
			// indices of the *deviated* run.
			if c.Thorough() {
				for _, k := range readIdx {
					if c.Expired() {
						c.Capped("time budget hit in pairs")
						return
					}
					for _, j := range shorts(base.Calls[k].Want) {
						_, s1 := runPlan(w, env.SourcePlan{ByteReader: br, Dev: map[int]env.Deviation{k: {Short: j}}})
						for k2 := k + 1; k2 < len(s1.Calls); k2++ {
							if s1.Calls[k2].Kind != "read" {
								continue
							}
							for _, j2 := range shorts(s1.Calls[k2].Want) {
								try(fmt.Sprintf("br%v|k%d|j%d|k%d|j%d", br, k, j, k2, j2), env.SourcePlan{Dev: map[int]env.Deviation{k: {Short: j}, k2: {Short: j2}}})
							}
						}
					}
				}
			}
		}
	}
}

func classify(msg string) string {
	for i, ch := range msg {
		if ch == ':' {
			return msg[:i]
		}
	}
	return msg
}

func replay(c *fw.Ctx, kind string, data json.RawMessage) string {
	thoroughTier = true
	var rc rcase
	if err := json.Unmarshal(data, &rc); err != nil {
		return "bad case: " + err.Error()
	}
	w, ok := workloads()[rc.Workload]
	if !ok {
		return "unknown workload " + rc.Workload
	}
	msg, _ := runPlan(w, rc.Plan)
	return msg
}

var _ = refpq.Required

// Main runs the check.
func Main() {
	fw.Main(fw.Spec{
		ID:    "C08",
		Level: "fault_enumeration",
		Rule: "for each workload file (mini, person x 3 codecs x {1 page, multi-page, 2 row groups}) the source's Read answers are enumerated: every fixed chunk size 1..largest request, data returned together with io.EOF, every single short read (1, 2, half, len-1 bytes) at every Read call index of the default run, and (thorough) every pair; each with and without io.ByteReader on the source. " +
			"Oracle: identical records, Error()==nil. distinct = (workload, plan)",
		Assumptions: []string{
			"short reads always deliver >= 1 byte (a (0, nil) read is allowed by io.Reader but discouraged and is not modelled)",
			"more than two simultaneous deviations are covered only through the fixed-chunk plans",
		},
		Run:            run,
		Replay:         replay,
		QuickBudget:    100 * time.Second,
		ThoroughBudget: 25 * time.Minute,
		MemLimitMB:     4096,
	})
}
