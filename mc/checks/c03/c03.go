// Package c03: column data is the canonical Dremel striping of the records.
package c03

import (
	"encoding/json"
	"fmt"
	"time"

	"verif/mc/families"
	"verif/mc/fw"
	"verif/mc/oracle"
)

func run(c *fw.Ctx) {
	families.RunAll(c, oracle.Striping, families.ForC03(c.Thorough()))
}

func replay(c *fw.Ctx, kind string, data json.RawMessage) string {
	var cs oracle.Case
	if err := json.Unmarshal(data, &cs); err != nil {
		return "bad case: " + err.Error()
	}
	fails := cs.Replay()
	if len(fails) == 0 {
		return ""
	}
	return fmt.Sprint(fails)
}

// Main runs the check.
func Main() {
	fw.Main(fw.Spec{
		ID:    "C03",
		Level: "exploration",
		Rule: "every record structure with <= s constructor nodes (every nil/non-nil and list-length combination at every nesting level), singly and in ordered pairs, page sizes {1, 2, default}: the rep/def levels and values the reference parser decodes from each column equal refpq.Stripe(records) (Dremel paper algorithm), " +
			"and the specification-only assembly (with sibling-consistency checks) returns the records. Distinct by (target, structure index/pair, page size).",
		Assumptions: []string{
			"structures beyond s nodes / list length 2 and shapes outside the catalogue (person, document, repetition, readme, mini, flat3) are covered under C05's program enumeration, not here",
			"the reference striping and assembly are pinned to the Dremel paper's example at start-up",
		},
		Run:            run,
		Replay:         replay,
		QuickBudget:    110 * time.Second,
		ThoroughBudget: 30 * time.Minute,
	})
}
