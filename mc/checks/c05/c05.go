// Package c05: parquetgen never emits silently wrong code for any documented
// struct shape.  Program enumeration: every struct definition of a bounded
// grammar -> parquetgen (twice) -> go build -> run against the round-trip,
// file-validity and striping oracles on every structurally distinct value.
package c05

import (
	"encoding/json"
	"fmt"
	"os"
	"path/filepath"
	"sort"
	"strings"
	"time"

	"verif/mc/fw"
	"verif/mc/prog"
)

type pcase struct {
	Sig   string          `json:"shape"`
	Class string          `json:"class"`
	Input json.RawMessage `json:"input,omitempty"`
}

func programs(thorough bool) []*prog.Shape {
	shapes := prog.Enumerate(2, 2, 9)
	if thorough {
		seen := map[string]bool{}
		for _, s := range shapes {
			seen[s.Sig()] = true
		}
		for _, more := range [][]*prog.Shape{prog.Enumerate(3, 2, 9), prog.Enumerate(1, 3, 9)} {
			for _, s := range more {
				if !seen[s.Sig()] {
					seen[s.Sig()] = true
					shapes = append(shapes, s)
				}
			}
		}
	}
	// second axis: leaf type x context on the single-leaf shapes
	for _, s := range prog.Enumerate(2, 1, 9) {
		for _, typ := range []string{"uint32", "int64", "uint64", "float32", "float64", "bool", "string"} {
			c, _ := prog.ParseSig(s.Sig())
			setType(c.Fields, typ)
			shapes = append(shapes, c)
		}
	}
	// many struct-typed fields under one parent (more than 8, 16)
	for _, sig := range []string{
		strings.Repeat("R(r)", 18),
		strings.Repeat("O(o)", 9) + "r" + strings.Repeat("R(o)", 9),
		"R(" + strings.Repeat("O(r)", 17) + ")r",
		strings.Repeat("R(r)", 5) + strings.Repeat("P(r)", 12),
	} {
		c, err := prog.ParseSig(sig)
		if err != nil {
			panic(err)
		}
		shapes = append(shapes, c)
	}
	// third axis: one struct type used by several fields.  Every shape above in
	// which two groups have the same children, declared with a single shared
	// type for them (signature prefix "~")
	n := len(shapes)
	for _, s := range shapes[:n] {
		if s.Sharable() {
			c, _ := prog.ParseSig("~" + s.Sig())
			shapes = append(shapes, c)
		}
	}
	// fourth axis: the same struct written with grouped declarations that also
	// name an unexported field ("u0, F0 int32" and "F0, u0 int32"): every shape
	// of depth <= 1 with <= 2 leaves
	for _, s := range prog.Enumerate(1, 2, 9) {
		for _, d := range []string{"u", "g", "n"} {
			c, _ := prog.ParseSig("^" + d + s.Sig())
			shapes = append(shapes, c)
		}
	}
	// fifth axis: the struct lives in another package and the code is
	// generated with -import (dot import of that package): every shape of depth
	// <= 1 with <= 2 leaves, and the single-leaf shapes of every leaf type
	for _, s := range prog.Enumerate(1, 2, 9) {
		c, _ := prog.ParseSig("@" + s.Sig())
		shapes = append(shapes, c)
	}
	for _, typ := range []string{"uint32", "int64", "uint64", "float32", "float64", "bool", "string"} {
		for _, sig := range []string{"r", "o", "p", "O(r)", "P(o)"} {
			c, _ := prog.ParseSig("@" + sig)
			setType(c.Fields, typ)
			shapes = append(shapes, c)
		}
	}
	return shapes
}

func setType(fs []*prog.Field, typ string) {
	for _, f := range fs {
		if f.Leaf {
			f.Type = typ
		} else {
			setType(f.Children, typ)
		}
	}
}

// verdicts turns a program result into (class, message, case) triples.
func verdicts(r prog.Result) [][3]string {
	var out [][3]string
	if r.NonDet {
		out = append(out, [3]string{"nondeterministic", "two runs of parquetgen on the same input differ: " + r.GenFail, ""})
	} else if r.GenFail != "" {
		out = append(out, [3]string{"gen-fail", r.GenFail, ""})
	}
	if r.CompileFail != "" {
		out = append(out, [3]string{"compile-fail", r.CompileFail, ""})
	}
	if r.Crash != "" {
		out = append(out, [3]string{"crash", r.Crash, ""})
	}
	for _, f := range r.Failures {
		out = append(out, [3]string{f.Class + "/" + f.Code, f.Msg, string(f.Case)})
	}
	return out
}

func runBatch(c *fw.Ctx, tier string, b int, shapes []*prog.Shape, keep bool) ([]prog.Result, error) {
	var progs []prog.Program
	for i, s := range shapes {
		name := fmt.Sprintf("s%05d", i)
		progs = append(progs, prog.Program{Name: name, Target: s.Sig(), Type: "T", Source: s.Source(name), ExternalType: s.External})
	}
	sNodes, pairCap := "5", "10"
	if tier == "thorough" {
		sNodes, pairCap = "6", "14"
	}
	cfg := prog.BatchConfig{
		MCDir:      os.Getenv("VERIF_MC"),
		RelDir:     fmt.Sprintf("work/c05/%s/b%04d", tier, b),
		Parquetgen: os.Getenv("VERIF_PARQUETGEN"),
		RunnerPkg:  "verif/mc/progrun",
		Env:        []string{"PROGRUN_MODE=c05", "PROGRUN_S=" + sNodes, "PROGRUN_PAIRCAP=" + pairCap},
		BuildP:     3,
		Timeout:    15 * time.Minute,
		Keep:       keep,
		GoCache:    scratchCache(),
	}
	return prog.RunBatch(cfg, progs)
}

func run(c *fw.Ctx) {
	if c.Thorough() {
		cacheShard = c.Shard // worker-private scratch cache, trimmed between batches
	}
	shapes := programs(c.Thorough())
	const batchSize = 130
	nb := (len(shapes) + batchSize - 1) / batchSize
	c.Bound("programs", len(shapes))
	c.Bound("grammar", "leaves int32 x {required, optional, repeated}, groups {required, optional, repeated}; quick: depth<=2 & leaves<=2 (2073) + 39 single-leaf shapes x 7 other leaf types + every shape in which two groups have the same children once more with one shared struct type for them (~) + every shape of depth<=1 with <=2 leaves declared with grouped names including an unexported one (^u, ^g) or followed by other code - constants, an interface, an unrelated struct, a method and a function with local types named like the package-level ones (^n) + the same shapes and every leaf type with the struct in another package and -import (@); thorough adds depth<=3 & leaves<=2 and depth<=1 & leaves<=3")
	classes := map[string]int64{}
	for b := 0; b < nb; b++ {
		if b%c.Shards != c.Shard {
			continue
		}
		if c.Expired() {
			c.Capped(fmt.Sprintf("time budget hit before batch %d of %d", b, nb))
			break
		}
		lo, hi := b*batchSize, (b+1)*batchSize
		if hi > len(shapes) {
			hi = len(shapes)
		}
		if c.Thorough() {
			prog.TrimCache(scratchCache(), 3<<30)
		}
		results, err := runBatch(c, c.Tier, b, shapes[lo:hi], false)
		if err != nil {
			// a failure of the pipeline itself (not of a program) is a harness error
			fmt.Fprintf(os.Stderr, "batch %d: %v\n", b, err)
			os.Exit(3)
		}
		for _, r := range results {
			c.Count("programs", 1)
			c.Distinct("prog|" + r.Target)
			c.EvalN(r.Evals + 1)
			vs := verdicts(r)
			if len(vs) == 0 {
				classes["ok"]++
				if c.WantSample() {
					c.Sample(map[string]interface{}{"shape": r.Target, "inputs_run": r.Evals, "verdict": "ok"})
				}
				continue
			}
			for _, v := range vs {
				cl := v[0]
				classes[strings.SplitN(cl, "/", 2)[0]]++
				key := "shape=" + r.Target + " class=" + cl
				var in json.RawMessage
				if v[2] != "" {
					in = json.RawMessage(v[2])
				}
				c.Violate(key, fmt.Sprintf("struct shape %s: %s: %s", r.Target, cl, v[1]), "program", pcase{r.Target, cl, in})
			}
		}
	}
	for k, v := range classes {
		c.Count("programs_"+k, v)
	}
}

func replay(c *fw.Ctx, kind string, data json.RawMessage) string {
	var pc pcase
	if err := json.Unmarshal(data, &pc); err != nil {
		return "bad case: " + err.Error()
	}
	s, err := prog.ParseSig(pc.Sig)
	if err != nil {
		return "bad shape: " + err.Error()
	}
	results, err := runBatch(c, fmt.Sprintf("replay%d", os.Getpid()), 0, []*prog.Shape{s}, false)
	defer os.RemoveAll(filepath.Join(os.Getenv("VERIF_MC"), fmt.Sprintf("work/c05/replay%d", os.Getpid())))
	if err != nil {
		return "harness: " + err.Error()
	}
	var got []string
	for _, v := range verdicts(results[0]) {
		got = append(got, v[0])
		if v[0] == pc.Class {
			return fmt.Sprintf("struct shape %s: %s: %s", pc.Sig, v[0], v[1])
		}
	}
	sort.Strings(got)
	if len(got) > 0 {
		return fmt.Sprintf("struct shape %s fails differently now: %v", pc.Sig, got)
	}
	return ""
}

// scratchCache is the build cache for the generated programs: the persistent
// shared one in the quick tier (set by vrun), a worker-private directory under
// the run's scratch cache in the thorough tier (trimmed between batches).
var cacheShard = -1

func scratchCache() string {
	base := os.Getenv("VERIF_SCRATCH_GOCACHE")
	if base == "" || cacheShard < 0 {
		return base
	}
	return filepath.Join(base, fmt.Sprintf("w%d", cacheShard))
}

// Main runs the check.
func Main() {
	fw.Main(fw.Spec{
		ID:    "C05",
		Level: "exploration",
		Rule: "program enumeration: every struct definition of the bounded grammar is given to the freshly built parquetgen twice (determinism), compiled, and its writer/reader run on every value with <= s constructor nodes (singly, ordered pairs, a triple; page sizes 1/2/default) against the round-trip, file-validity and Dremel-striping oracles. " +
			"A program is one distinct case; evaluations = programs + inputs executed. Failure classes: gen-fail, nondeterministic, compile-fail, crash, panic/*, roundtrip/*, invalid/*, striping/*; each (shape, class) not listed in known_findings.jsonl is a violation",
		Assumptions: []string{
			"shapes beyond the grammar bound (more leaves, deeper nesting, other leaf types in multi-leaf shapes) are not covered",
			"determinism is two runs in separate processes (map iteration order is not enumerable)",
		},
		Run:            run,
		Replay:         replay,
		QuickBudget:    420 * time.Second,
		ThoroughBudget: 60 * time.Minute,
		MaxShards:      8,
		MaxConfirm:     3,
		MaxViolations:  200000,
	})
}
