// Package c15: a struct regenerated from a file reads that file back
// faithfully.  Two-stage program enumeration: source struct -> parquetgen ->
// writer -> files -> parquetgen -parquet -> regenerated struct + reader ->
// read the files.
package c15

import (
	"encoding/json"
	"fmt"
	"os"
	"path/filepath"
	"strings"
	"time"

	"verif/mc/fw"
	"verif/mc/prog"
)

var leafTypes = []string{"int32", "int64", "float32", "float64", "bool", "string"}

// shapes enumerates the non-repeated grammar.
func shapes(thorough bool) []*prog.Shape {
	depth, leaves, rots := 2, 2, 1
	if thorough {
		// (depth 3, 2 leaves) below, plus (depth 2, 3 leaves) appended after it:
		// depth 3 with 3 leaves is 74 306 shapes, more than the budget can
		// generate, compile and run
		depth, leaves, rots = 3, 2, 2
	}
	var out []*prog.Shape
	seen := map[string]bool{}
	add := func(s *prog.Shape) {
		if !seen[s.Sig()] {
			seen[s.Sig()] = true
			schemeOf[s] = len(out) // column naming style rotates over the programs
			out = append(out, s)
		}
	}
	grammar := prog.Enumerate(depth, leaves, 3)
	if thorough {
		grammar = append(grammar, prog.Enumerate(2, 3, 3)...)
	}
	for _, s := range grammar {
		if hasRepeated(s.Fields) {
			continue
		}
		// leaf types rotate through the list by position; two rotations
		for rot := 0; rot < rots; rot++ {
			c, _ := prog.ParseSig(s.Sig())
			k := rot * 3
			assign(c.Fields, &k)
			add(c)
		}
	}
	// several sibling groups followed by further fields (the regenerated
	// struct is rebuilt from the flattened schema by a cursor walk; this is
	// where a cursor error shows)
	for _, x := range "RO" {
		for _, y := range "RO" {
			for _, z := range "ro" {
				for _, sig := range []string{
					fmt.Sprintf("%c(r)%c(r)%c", x, y, z),
					fmt.Sprintf("R(%c(r)%c(r)%c)", x, y, z),
					fmt.Sprintf("R(%c(r)%c(r))%c", x, y, z),
					fmt.Sprintf("%c(r)%c(o)O(%c)", x, y, z),
					fmt.Sprintf("r%c(o)%c(r)%cr", x, y, z),
				} {
					c, err := prog.ParseSig(sig)
					if err != nil {
						panic(err)
					}
					k := len(out)
					assign(c.Fields, &k)
					add(c)
				}
			}
		}
	}
	// many struct-typed fields under one parent (more than 8, 16)
	for _, sig := range []string{
		strings.Repeat("R(r)", 18),
		strings.Repeat("O(o)", 9) + "r" + strings.Repeat("R(o)", 9),
		"R(" + strings.Repeat("O(r)", 17) + ")r",
	} {
		c, err := prog.ParseSig(sig)
		if err != nil {
			panic(err)
		}
		k := len(out)
		assign(c.Fields, &k)
		add(c)
	}
	// every leaf type in every single-leaf context
	for _, s := range prog.Enumerate(depth, 1, 3) {
		if hasRepeated(s.Fields) {
			continue
		}
		for i := range leafTypes {
			c, _ := prog.ParseSig(s.Sig())
			k := i
			assign(c.Fields, &k)
			add(c)
		}
	}
	// name reuse: every shape above with a group and at least two leaves,
	// again with the leaves of every struct named v0, v1, ... (the same leaf
	// name with different types under different parents), and once more with
	// the first leaf of a struct named after a group declared elsewhere
	base := len(out)
	for _, s := range out[:base] {
		if s.Leaves() < 2 || s.Leaves() == len(s.Fields) {
			continue
		}
		for v := 0; v < 2; v++ {
			c, _ := prog.ParseSig(s.Sig())
			schemeOf[c] = -1 - v
			if v == 1 && source("x", c) == source("x", out[len(out)-1]) {
				continue // no group to borrow a name from
			}
			out = append(out, c)
		}
	}
	return out
}

// label names a program: the shape signature, plus the naming variant.
func label(s *prog.Shape) string {
	if sc := schemeOf[s]; sc < 0 {
		return fmt.Sprintf("%s names=dup%d", s.Sig(), -1-sc)
	}
	return s.Sig()
}

func hasRepeated(fs []*prog.Field) bool {
	for _, f := range fs {
		if f.Rep == 2 || (!f.Leaf && hasRepeated(f.Children)) {
			return true
		}
	}
	return false
}

func assign(fs []*prog.Field, k *int) {
	for _, f := range fs {
		if f.Leaf {
			f.Type = leafTypes[*k%len(leafTypes)]
			*k++
		} else {
			assign(f.Children, k)
		}
	}
}

// source renders the struct with lower-case column names via tags; leaves
// are l<n>, groups g<n> (unique), Go names are the title-cased column names.
// nameFor renders column names in one of several styles (the regenerated
// struct derives Go identifiers and nested type names from them).
//
// Negative schemes are the name-reuse variants (only groups have to be
// uniquely named): -1 names a leaf after its position in its parent ("v0",
// "v1", ... in every struct, with different types); -2 also names the first
// leaf of every struct after a group declared elsewhere in the shape.

func nameFor(scheme int, leaf bool, n int) string {
	switch (scheme%3 + 3) % 3 {
	case 1:
		if leaf {
			return fmt.Sprintf("my_leaf_%d", n)
		}
		return fmt.Sprintf("my_group_%d", n)
	case 2:
		if leaf {
			return fmt.Sprintf("leafValue%d", n)
		}
		return fmt.Sprintf("groupNode%d", n)
	}
	if leaf {
		return fmt.Sprintf("l%d", n)
	}
	return fmt.Sprintf("g%d", n)
}

var schemeOf = map[*prog.Shape]int{}

func source(pkg string, s *prog.Shape) string {
	scheme := schemeOf[s]
	var decls []string
	n := 0
	var rec func(name string, fs []*prog.Field)
	rec = func(name string, fs []*prog.Field) {
		var sb strings.Builder
		fmt.Fprintf(&sb, "type %s struct {\n", name)
		type pending struct {
			name string
			fs   []*prog.Field
		}
		var later []pending
		for idx, f := range fs {
			n++
			prefix := []string{"", "*", "[]"}[f.Rep]
			if f.Leaf {
				col := nameFor(scheme, true, n)
				if scheme < 0 {
					col = fmt.Sprintf("v%d", idx)
					if other := otherGroup(s, name); scheme == -2 && idx == 0 && other != "" {
						col = other
					}
				}
				fmt.Fprintf(&sb, "\tL%d %s%s `parquet:\"%s\"`\n", n, prefix, f.Type, col)
			} else {
				tn := fmt.Sprintf("G%d", n)
				gcol := nameFor(scheme, false, n)
				if scheme < 0 {
					gcol = fmt.Sprintf("g%d", n)
				}
				fmt.Fprintf(&sb, "\t%s %s%s `parquet:\"%s\"`\n", tn, prefix, tn, gcol)
				later = append(later, pending{tn, f.Children})
			}
		}
		sb.WriteString("}\n")
		decls = append(decls, sb.String())
		for _, p := range later {
			rec(p.name, p.fs)
		}
	}
	rec("T", s.Fields)
	return "package " + pkg + "\n\n" + strings.Join(decls, "\n")
}

// otherGroup returns the column name of a group of the shape that is neither
// the struct named self nor one of its siblings' ... (any group declared in a
// different struct than self's own fields): the first group in pre-order whose
// Go type name differs from self and that is not a direct field of self.
func otherGroup(s *prog.Shape, self string) string {
	n := 0
	res := ""
	var rec func(owner string, fs []*prog.Field)
	rec = func(owner string, fs []*prog.Field) {
		type pend struct {
			name string
			fs   []*prog.Field
		}
		var later []pend
		for _, f := range fs {
			n++
			if !f.Leaf {
				tn := fmt.Sprintf("G%d", n)
				if res == "" && tn != self && owner != self {
					res = fmt.Sprintf("g%d", n)
				}
				later = append(later, pend{tn, f.Children})
			}
		}
		for _, p := range later {
			rec(p.name, p.fs)
		}
	}
	rec("T", s.Fields)
	return res
}

type rcase struct {
	Sig    string `json:"shape"`
	Class  string `json:"class"`
	Scheme int    `json:"naming_scheme"`
}

func verdicts(r prog.Result) [][2]string {
	var out [][2]string
	if r.NonDet {
		out = append(out, [2]string{"nondeterministic", r.GenFail})
	} else if r.GenFail != "" {
		out = append(out, [2]string{"gen-fail", r.GenFail})
	}
	if r.CompileFail != "" {
		out = append(out, [2]string{"compile-fail", r.CompileFail})
	}
	if r.Crash != "" {
		out = append(out, [2]string{"crash", r.Crash})
	}
	for _, fl := range r.Failures {
		cl := fl.Class
		if fl.Code != "" {
			cl += "/" + fl.Code
		}
		out = append(out, [2]string{cl, fl.Msg})
	}
	return out
}

// runJob runs both stages for a batch of shapes.  It returns per shape the
// stage-1 result and the stage-2 result (nil when stage 1 produced no file).
func runJob(tier string, idx int, ss []*prog.Shape) ([]prog.Result, []*prog.Result, error) {
	mc := os.Getenv("VERIF_MC")
	rel := fmt.Sprintf("work/c15/%s/j%04d", tier, idx)
	data := filepath.Join(mc, rel+"-data")
	os.RemoveAll(data)
	os.MkdirAll(data, 0o755)
	defer os.RemoveAll(data)
	var progs []prog.Program
	for i, s := range ss {
		name := fmt.Sprintf("s%05d", i)
		progs = append(progs, prog.Program{Name: name, Target: name + "|" + s.Sig(), Type: "T", Source: source(name, s)})
	}
	cfg := prog.BatchConfig{
		MCDir: mc, RelDir: rel + "w", Parquetgen: os.Getenv("VERIF_PARQUETGEN"),
		RunnerPkg: "verif/mc/checks/c15/runner", Env: []string{"PROGRUN_MODE=c15w", "C15_DATA=" + data},
		BuildP: 3, Timeout: 15 * time.Minute, GoCache: scratchCache(),
	}
	r1, err := prog.RunBatch(cfg, progs)
	if err != nil {
		return nil, nil, fmt.Errorf("stage 1: %v", err)
	}
	var progs2 []prog.Program
	var which []int
	for i := range ss {
		f0 := filepath.Join(data, fmt.Sprintf("p%05d", i), "f0.parquet")
		if _, err := os.Stat(f0); err != nil {
			continue
		}
		name := fmt.Sprintf("r%05d", i)
		progs2 = append(progs2, prog.Program{Name: name, Target: name + "|" + ss[i].Sig(), Type: "T", Parquet: f0})
		which = append(which, i)
	}
	r2 := make([]*prog.Result, len(ss))
	if len(progs2) > 0 {
		cfg.RelDir = rel + "r"
		cfg.Env = []string{"PROGRUN_MODE=c15r", "C15_DATA=" + data}
		res2, err := prog.RunBatch(cfg, progs2)
		if err != nil {
			return nil, nil, fmt.Errorf("stage 2: %v", err)
		}
		for k, i := range which {
			rr := res2[k]
			r2[i] = &rr
		}
	}
	return r1, r2, nil
}

func run(c *fw.Ctx) {
	if c.Thorough() {
		cacheShard = c.Shard // worker-private scratch cache, trimmed between batches
	}
	ss := shapes(c.Thorough())
	c.Bound("programs", len(ss))
	c.Bound("grammar", "no repeated fields; leaves {int32,int64,float32,float64,bool,string} x {required, optional}; groups {required, optional} with unique names, leaf names unique per file and (for every shape with a group and >= 2 leaves) reused across parents with different types / borrowed from a group elsewhere; <=3 fields per struct; quick depth<=2 & <=2 leaves, thorough (depth<=3 & <=2 leaves) + (depth<=2 & <=3 leaves); leaf types rotate by position (1 / 2 rotations) plus every type in every single-leaf context")
	const per = 90
	nb := (len(ss) + per - 1) / per
	for b := 0; b < nb; b++ {
		if b%c.Shards != c.Shard {
			continue
		}
		if c.Expired() {
			c.Capped(fmt.Sprintf("time budget hit before job %d of %d", b, nb))
			break
		}
		lo, hi := b*per, (b+1)*per
		if hi > len(ss) {
			hi = len(ss)
		}
		if c.Thorough() {
			prog.TrimCache(scratchCache(), 3<<30)
		}
		r1, r2, err := runJob(c.Tier, b, ss[lo:hi])
		if err != nil {
			fmt.Fprintf(os.Stderr, "job %d: %v\n", b, err)
			os.Exit(3)
		}
		for i := range r1 {
			sig := ss[lo+i].Sig()
			lbl := label(ss[lo+i])
			c.Count("programs", 1)
			c.Distinct(lbl)
			c.EvalN(r1[i].Evals + 1)
			if r2[i] == nil {
				// the source struct's own writer could not produce a file: a C05
				// matter, nothing for C15 to judge
				c.Count("programs_without_a_file_(base_fails)", 1)
				continue
			}
			c.EvalN(r2[i].Evals)
			// the source struct's own writer already violates C01/C02 on some
			// input: reported here too, because the files C15 quantifies over
			// are then not the files the property talks about
			for _, v := range verdicts(r1[i]) {
				if strings.HasPrefix(v[0], "base-") {
					c.Violate("shape="+lbl+" class="+v[0], fmt.Sprintf("struct shape %s: the source struct's own writer fails: %s: %s", lbl, v[0], v[1]), "regen", rcase{sig, v[0], schemeOf[ss[lo+i]]})
				}
			}
			if c.WantSample() && i%23 == 2 {
				c.Sample(map[string]interface{}{"shape": lbl, "files_written": r1[i].Evals, "files_read_back": r2[i].Evals})
			}
			for _, v := range verdicts(*r2[i]) {
				c.Violate("shape="+lbl+" class="+v[0], fmt.Sprintf("struct shape %s: %s: %s", lbl, v[0], v[1]), "regen", rcase{sig, v[0], schemeOf[ss[lo+i]]})
			}
		}
	}
}

func replay(c *fw.Ctx, kind string, data json.RawMessage) string {
	var rc rcase
	if err := json.Unmarshal(data, &rc); err != nil {
		return "bad case: " + err.Error()
	}
	s, err := prog.ParseSig(rc.Sig)
	if err != nil {
		return "bad shape: " + err.Error()
	}
	schemeOf[s] = rc.Scheme
	tier := fmt.Sprintf("replay%d", os.Getpid())
	defer os.RemoveAll(filepath.Join(os.Getenv("VERIF_MC"), "work/c15", tier))
	r1, r2, err := runJob(tier, 0, []*prog.Shape{s})
	if err != nil {
		return "harness: " + err.Error()
	}
	if r2[0] == nil {
		return ""
	}
	for _, v := range verdicts(r1[0]) {
		if v[0] == rc.Class {
			return fmt.Sprintf("struct shape %s: %s: %s", rc.Sig, v[0], v[1])
		}
	}
	for _, v := range verdicts(*r2[0]) {
		if v[0] == rc.Class {
			return fmt.Sprintf("struct shape %s: %s: %s", rc.Sig, v[0], v[1])
		}
	}
	if vs := verdicts(*r2[0]); len(vs) > 0 {
		return fmt.Sprintf("fails differently now: %v", vs[0])
	}
	return ""
}

// scratchCache is the build cache for the generated programs: the persistent
// shared one in the quick tier (set by vrun), a worker-private directory under
// the run's scratch cache in the thorough tier (trimmed between batches).
var cacheShard = -1

func scratchCache() string {
	base := os.Getenv("VERIF_SCRATCH_GOCACHE")
	if base == "" || cacheShard < 0 {
		return base
	}
	return filepath.Join(base, fmt.Sprintf("w%d", cacheShard))
}

// Main runs the check.
func Main() {
	fw.Main(fw.Spec{
		ID:    "C15",
		Level: "exploration",
		Rule: "two-stage program enumeration over the non-repeated grammar: each source struct is generated and compiled, its writer produces one file per record structure (<= 3 constructor nodes, values alternating between fresh counters and the alphabets' extremes; 3 codecs) plus one multi-row-group file; parquetgen -parquet regenerates a struct and reader from the first file (twice: determinism), which is compiled and reads every file. " +
			"Oracle: the regenerated struct's schema (harness rules) equals the schema the reference parser finds in the file (columns, nesting, optionality, physical types); the regenerated reader returns exactly the written values. distinct = source struct shape",
		Assumptions: []string{
			"source structs whose own writer fails (C05 findings) produce no file and are counted, not judged",
			"unsigned leaves are outside the property (the regenerated struct uses the signed physical type)",
		},
		Run:            run,
		Replay:         replay,
		QuickBudget:    300 * time.Second,
		ThoroughBudget: 60 * time.Minute,
		MaxShards:      8,
		MaxConfirm:     3,
		MaxViolations:  200000,
	})
}
