// Package runner is linked into the C15 batch binaries.  Stage "c15w" writes
// files with the generated writer of the source struct; stage "c15r" reads
// them with the reader generated from the struct that parquetgen -parquet
// regenerated from one of those files.
package runner

import (
	"bytes"
	"encoding/json"
	"fmt"
	"os"
	"path/filepath"
	"strings"

	"verif/mc/drive"
	"verif/mc/gen"
	"verif/mc/oracle"
	"verif/mc/prog"
	"verif/mc/progrun"
	"verif/mc/refpq"
	"verif/mc/sut"
)

// Main is the batch entry point.
func Main() {
	progrun.Modes["c15w"] = write
	progrun.Modes["c15r"] = read
	progrun.Main()
}

type manifest struct {
	Files []fileEntry `json:"files"`
}

type fileEntry struct {
	File    string          `json:"file"`
	Records json.RawMessage `json:"records"`
	Schema  string          `json:"schema"`
}

func dirOf(t *sut.Target) string {
	name := strings.SplitN(t.Name, "|", 2)[0]
	name = strings.TrimPrefix(name, "r")
	name = strings.TrimPrefix(name, "s")
	return filepath.Join(os.Getenv("C15_DATA"), "p"+name)
}

func write(t *sut.Target) prog.Result {
	res := prog.Result{Target: t.Name, Ran: true}
	dir := dirOf(t)
	os.MkdirAll(dir, 0o755)
	root := t.Schema()
	all := gen.Structures(root, 3, 1)
	if len(all) > 40 {
		all = all[:40]
	}
	var man manifest
	emit := func(k int, recs []refpq.Val, batches []int, page int, codec sut.Codec) {
		res.Evals++
		// Whatever the writer produces is "a file written for the struct": it
		// is kept even when the C01/C02 oracles object (those objections are
		// reported, but stage 2 still has to cope with the file).
		file, fails := oracle.Run(t, recs, batches, page, codec, oracle.RoundTrip|oracle.Valid|oracle.NoScramble)
		if len(fails) > 0 {
			res.Failures = append(res.Failures, prog.Failure{Class: "base-" + fails[0].Class, Code: fails[0].Code, Msg: fails[0].Msg})
			if fails[0].Class == "panic" || fails[0].Class == "write-error" || len(file) < 12 {
				return
			}
		}
		fn := filepath.Join(dir, fmt.Sprintf("f%d.parquet", k))
		os.WriteFile(fn, file, 0o644)
		man.Files = append(man.Files, fileEntry{File: fn, Records: refpq.RecsToJSON(root, recs), Schema: root.String()})
	}
	// file 0: every structure as one record each, in one file (2 row groups, page size 2)
	var recs []refpq.Val
	fl := &gen.Filler{}
	for _, st := range all {
		recs = append(recs, fillAlpha(root, st, fl, len(recs)))
	}
	n := len(recs)
	if n >= 2 {
		emit(0, recs, []int{n / 2, n - n/2}, 2, sut.Snappy)
	} else {
		emit(0, recs, []int{n}, 0, sut.Snappy)
	}
	for i, st := range all {
		fl := &gen.Filler{}
		codec := []sut.Codec{sut.Snappy, sut.Uncompressed, sut.Gzip}[i%3]
		emit(i+1, []refpq.Val{fillAlpha(root, st, fl, i)}, []int{1}, 0, codec)
	}
	b, _ := json.Marshal(man)
	os.WriteFile(filepath.Join(dir, "manifest.json"), b, 0o644)
	return res
}

// fillAlpha fills leaves alternately with fresh counter values and alphabet
// extremes so that "all values" includes min/max/NaN/-0/empty strings.
func fillAlpha(root *refpq.Node, st refpq.Val, fl *gen.Filler, rot int) refpq.Val {
	v := gen.Fill(root, st, fl)
	cnt := rot
	var inner func(n *refpq.Node, v refpq.Val) refpq.Val
	var node func(n *refpq.Node, v refpq.Val) refpq.Val
	inner = func(n *refpq.Node, v refpq.Val) refpq.Val {
		if n.Leaf {
			cnt++
			if cnt%2 == 0 {
				a := gen.Alphabet(n.GoKind)
				return refpq.Val{Leaf: a[(cnt/2)%len(a)]}
			}
			return v
		}
		out := refpq.Val{Group: make([]refpq.Val, len(n.Children))}
		for i, c := range n.Children {
			out.Group[i] = node(c, v.Group[i])
		}
		return out
	}
	node = func(n *refpq.Node, v refpq.Val) refpq.Val {
		if n.Rep == refpq.Optional && v.Null {
			return v
		}
		return inner(n, v)
	}
	return inner(root, v)
}

func read(t *sut.Target) prog.Result {
	res := prog.Result{Target: t.Name, Ran: true}
	seen := map[string]bool{}
	add := func(class, code, msg string) {
		if seen[class+code] {
			return
		}
		seen[class+code] = true
		if len(msg) > 600 {
			msg = msg[:600] + "..."
		}
		res.Failures = append(res.Failures, prog.Failure{Class: class, Code: code, Msg: msg})
	}
	dir := dirOf(t)
	b, err := os.ReadFile(filepath.Join(dir, "manifest.json"))
	if err != nil {
		add("harness", "manifest", err.Error())
		return res
	}
	var man manifest
	json.Unmarshal(b, &man)
	root := t.Schema() // schema of the regenerated struct (harness rules)
	for _, fe := range man.Files {
		res.Evals++
		file, err := os.ReadFile(fe.File)
		if err != nil {
			add("harness", "file", err.Error())
			continue
		}
		// the regenerated struct must describe the same columns as the file
		pf, err := refpq.ParseFile(file, refpq.ParseOptions{})
		if err != nil {
			add("harness", "parse", err.Error())
			continue
		}
		if d := refpq.SameSchema(pf.Schema, root); d != "" {
			add("struct", "schema", "regenerated struct differs from the file's schema (columns, nesting, optionality or physical types): "+d+"\nregenerated:\n"+root.String())
			continue
		}
		want, err := refpq.RecsFromJSON(root, fe.Records)
		if err != nil {
			add("struct", "records-shape", "written records do not fit the regenerated struct: "+err.Error())
			continue
		}
		rr := drive.ReadAll(t, bytes.NewReader(file), len(want)+8)
		switch {
		case rr.Panic != "":
			add("panic", "read", rr.Panic)
		case rr.OpenErr != nil:
			add("read", "open-error", rr.OpenErr.Error())
		case rr.Err != nil:
			add("read", "error", rr.Err.Error())
		default:
			if d := drive.CompareRecords(root, want, rr.Snap); d != "" {
				add("read", "records", "the regenerated reader returns different values: "+d+" | file "+filepath.Base(fe.File))
			}
		}
	}
	return res
}
