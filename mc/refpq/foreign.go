package refpq

import (
	"encoding/binary"
	"fmt"
	"hash/crc32"

	"github.com/golang/snappy"
)

// Encodings (parquet.thrift enum Encoding).
const (
	EncPlain           = 0
	EncPlainDictionary = 2
	EncRLE             = 3
	EncBitPacked       = 4
	EncDeltaBinary     = 5
	EncDeltaLenBA      = 6
	EncDeltaBA         = 7
	EncRLEDictionary   = 8
	EncByteStreamSplit = 9
)

// Page types.
const (
	PageData       = 0
	PageIndex      = 1
	PageDictionary = 2
	PageDataV2     = 3
)

// LevelPlanFn chooses a run plan for a level stream.
type LevelPlanFn func(levels []uint8) []RunSpec

// ChunkPlan holds the physical choices for one column chunk.
type ChunkPlan struct {
	Codec      int
	Splits     []int             // records per page (nil = all records in one page)
	RepPlan    map[int][]RunSpec // page index -> explicit plan (absent = DefaultPlan)
	DefPlan    map[int][]RunSpec
	SnappyMode int // 0 = golang/snappy encoder, 1 literal-only short, 2 literal 1-byte length form, 3 copy1, 4 copy2, 5 copy4
	Stats      int // 0 none, 1 min_value/max_value + null_count, 2 deprecated min/max, 3 both, 4 empty Statistics struct
	CRC        bool
	// metadata options
	FileOffsetZero   bool
	DictOffsetField  bool // write dictionary_page_offset = 0? (absent by default)
	EncodingStats    bool
	ChunkStatistics  bool
	EncodingsWithRLE bool
	KeyValue         bool
	// BitPackedLabels: label the level encodings the column does not have
	// (no definition levels / no repetition levels) BIT_PACKED instead of RLE,
	// as older writers do; legal because no such level data exists
	BitPackedLabels bool
	// unsupported feature injected into this chunk (C18)
	Feature *Feature
}

// Feature describes one unsupported feature placed in a chunk.
type Feature struct {
	Kind string // dict-page | index-page | v2-page | value-encoding | def-bitpacked | rep-bitpacked | codec
	Page int    // page position the feature applies to
	Arg  int    // encoding / codec number
	// Genuine: encode the payload for real where implemented (otherwise the
	// PLAIN payload is kept under the foreign label)
	Genuine bool
}

// FilePlan holds the file-level choices.
type FilePlan struct {
	RowGroups   [][]Val
	Chunk       func(rg, col int) ChunkPlan
	CreatedBy   string
	KeyValue    bool
	ColumnOrder bool
	UTF8        bool   // annotate byte arrays with UTF8
	RootName    string // default "root"
	UnknownIDs  bool   // add unknown field ids to footer, row group, chunk and page header structs
	Version     int    // default 1
	SortingCols bool
}

// SnappyEncode encodes data in a chosen stream shape (validated by the caller
// with snappy.Decode).
func SnappyEncode(mode int, data []byte) []byte {
	if mode == 0 {
		return snappy.Encode(nil, data)
	}
	out := binary.AppendUvarint(nil, uint64(len(data)))
	lit := func(b []byte, form int) {
		for len(b) > 0 {
			n := len(b)
			switch form {
			case 0: // short form: <= 60 bytes, length in the tag
				if n > 60 {
					n = 60
				}
				out = append(out, byte(n-1)<<2)
			case 1: // 1-byte length form (tag 60): up to 256 bytes
				if n > 256 {
					n = 256
				}
				out = append(out, 60<<2, byte(n-1))
			case 2: // 2-byte length form (tag 61)
				if n > 65536 {
					n = 65536
				}
				out = append(out, 61<<2, byte(n-1), byte((n-1)>>8))
			}
			out = append(out, b[:n]...)
			b = b[n:]
		}
	}
	switch mode {
	case 1:
		lit(data, 0)
		return out
	case 2:
		lit(data, 1)
		return out
	case 6:
		lit(data, 2)
		return out
	}
	// copy modes: naive longest-match search
	i := 0
	litStart := 0
	flush := func(end int) {
		if end > litStart {
			lit(data[litStart:end], 0)
		}
	}
	for i < len(data) {
		bestLen, bestOff := 0, 0
		for j := i - 1; j >= 0 && i-j < 65536; j-- {
			l := 0
			for i+l < len(data) && data[j+l] == data[i+l] && l < 64 {
				l++
			}
			if l > bestLen {
				bestLen, bestOff = l, i-j
			}
			if i-j > 4096 && bestLen >= 4 {
				break
			}
		}
		ok := false
		switch mode {
		case 3: // copy with 1-byte offset: len 4..11, offset < 2048
			if bestLen >= 4 && bestOff < 2048 {
				if bestLen > 11 {
					bestLen = 11
				}
				flush(i)
				out = append(out, byte(1|(bestLen-4)<<2|(bestOff>>8)<<5), byte(bestOff))
				ok = true
			}
		case 4: // copy with 2-byte offset: len 1..64
			if bestLen >= 1 {
				flush(i)
				out = append(out, byte(2|(bestLen-1)<<2), byte(bestOff), byte(bestOff>>8))
				ok = true
			}
		case 5: // copy with 4-byte offset
			if bestLen >= 1 {
				flush(i)
				out = append(out, byte(3|(bestLen-1)<<2), byte(bestOff), byte(bestOff>>8), byte(bestOff>>16), byte(bestOff>>24))
				ok = true
			}
		}
		if ok {
			i += bestLen
			litStart = i
		} else {
			i++
		}
	}
	flush(len(data))
	return out
}

func compressWith(codec, snappyMode int, b []byte) []byte {
	if codec == CodecSnappy && snappyMode != 0 {
		return SnappyEncode(snappyMode, b)
	}
	return Compress(codec, b)
}

// statBytes computes min/max of the non-null values of a page.
func statBytes(leaf *Node, vals []interface{}) (min, max []byte, ok bool) {
	if len(vals) == 0 || leaf.Phys == PBoolean {
		return nil, nil, false
	}
	lo, hi := vals[0], vals[0]
	for _, v := range vals[1:] {
		if less(v, lo) {
			lo = v
		}
		if less(hi, v) {
			hi = v
		}
	}
	if leaf.Phys == PByteArray {
		return []byte(lo.(string)), []byte(hi.(string)), true
	}
	return EncodePlain(leaf, []interface{}{lo}), EncodePlain(leaf, []interface{}{hi}), true
}

func less(a, b interface{}) bool {
	switch x := a.(type) {
	case int32:
		return x < b.(int32)
	case uint32:
		return x < b.(uint32)
	case int64:
		return x < b.(int64)
	case uint64:
		return x < b.(uint64)
	case float32:
		return x < b.(float32)
	case float64:
		return x < b.(float64)
	case string:
		return x < b.(string)
	}
	return false
}

// bitPackedLevels encodes levels with the deprecated BIT_PACKED encoding
// (MSB-first, no length prefix).
func bitPackedLevels(levels []uint8, width int) []byte {
	nbits := len(levels) * width
	out := make([]byte, (nbits+7)/8)
	bit := 0
	for _, l := range levels {
		for k := width - 1; k >= 0; k-- {
			if l>>uint(k)&1 == 1 {
				out[bit>>3] |= 1 << (7 - uint(bit)&7)
			}
			bit++
		}
	}
	return out
}

type builtPage struct {
	header *TS
	body   []byte
	values int
}

// WriteForeign produces a Parquet file for the plan.
func WriteForeign(schema *Node, plan FilePlan) ([]byte, error) {
	leaves := schema.Leaves()
	out := []byte("PAR1")
	var rgVals []TVal
	var totalRows int64
	for gi, recs := range plan.RowGroups {
		cols := Stripe(schema, recs)
		var chunkVals []TVal
		var rgBytes int64
		for ci, col := range cols {
			leaf := leaves[ci]
			cp := plan.Chunk(gi, ci)
			chunkStart := len(out)
			// split entries into records
			var recEntries [][]Entry
			for _, e := range col.Entries {
				if e.R == 0 {
					recEntries = append(recEntries, nil)
				}
				recEntries[len(recEntries)-1] = append(recEntries[len(recEntries)-1], e)
			}
			splits := cp.Splits
			if splits == nil {
				splits = []int{len(recEntries)}
				if len(recEntries) == 0 {
					splits = []int{} // a row group without rows: chunks without pages
				}
			}
			sum := 0
			for _, s := range splits {
				sum += s
			}
			if sum != len(recEntries) {
				return nil, fmt.Errorf("splits %v do not cover %d records", splits, len(recEntries))
			}
			var pages []builtPage
			rp := 0
			var numValues, sumComp, sumUncomp int64
			var dictOffset int64 = -1
			encUsed := map[int]bool{EncPlain: true}
			codec := cp.Codec
			metaCodec := codec
			if cp.Feature != nil && cp.Feature.Kind == "codec" {
				metaCodec = cp.Feature.Arg
			}
			for pi, s := range splits {
				var ents []Entry
				for _, re := range recEntries[rp : rp+s] {
					ents = append(ents, re...)
				}
				rp += s
				var reps, defs []uint8
				var vals []interface{}
				nulls := 0
				for _, e := range ents {
					reps = append(reps, e.R)
					defs = append(defs, e.D)
					if e.V != nil {
						vals = append(vals, e.V)
					} else {
						nulls++
					}
				}
				feat := cp.Feature
				if feat != nil && feat.Page != pi && feat.Kind != "codec" {
					feat = nil
				}
				var data []byte
				repEnc, defEnc, valEnc := EncRLE, EncRLE, EncPlain
				if cp.BitPackedLabels {
					if leaf.RepLevel == 0 {
						repEnc = EncBitPacked
					}
					if leaf.DefLevel == 0 {
						defEnc = EncBitPacked
					}
				}
				var repBytes, defBytes []byte
				if leaf.RepLevel > 0 {
					p := cp.RepPlan[pi]
					if p == nil {
						p = DefaultPlan(reps)
					}
					b, err := EncodeHybridPlan(reps, BitWidth(leaf.RepLevel), p)
					if err != nil {
						return nil, err
					}
					repBytes = b
					if feat != nil && feat.Kind == "rep-bitpacked" {
						repBytes = bitPackedLevels(reps, BitWidth(leaf.RepLevel))
						repEnc = EncBitPacked
					}
				}
				if leaf.DefLevel > 0 {
					p := cp.DefPlan[pi]
					if p == nil {
						p = DefaultPlan(defs)
					}
					b, err := EncodeHybridPlan(defs, BitWidth(leaf.DefLevel), p)
					if err != nil {
						return nil, err
					}
					defBytes = b
					if feat != nil && feat.Kind == "def-bitpacked" {
						defBytes = bitPackedLevels(defs, BitWidth(leaf.DefLevel))
						defEnc = EncBitPacked
					}
				} else if feat != nil && feat.Kind == "def-bitpacked" {
					// legal on a column without levels: only the label changes
					defEnc = EncBitPacked
				}
				if leaf.RepLevel == 0 && feat != nil && feat.Kind == "rep-bitpacked" {
					repEnc = EncBitPacked
				}
				valBytes := EncodePlain(leaf, vals)
				// dictionary page before this page
				if feat != nil && feat.Kind == "dict-page" {
					// genuine dictionary encoding: dictionary page with the distinct
					// values, data page with RLE_DICTIONARY / PLAIN_DICTIONARY indices
					var dict []interface{}
					idx := map[interface{}]int{}
					var indices []uint8
					for _, v := range vals {
						k := LeafBits(v)
						if _, ok := idx[k]; !ok {
							idx[k] = len(dict)
							dict = append(dict, v)
						}
						indices = append(indices, uint8(idx[k]))
					}
					dbody := EncodePlain(leaf, dict)
					dcomp := compressWith(codec, cp.SnappyMode, dbody)
					dh := &TS{}
					dh.Set(1, VI32(PageDictionary)).Set(2, VI32(int64(len(dbody)))).Set(3, VI32(int64(len(dcomp))))
					dph := &TS{}
					dph.Set(1, VI32(int64(len(dict)))).Set(2, VI32(int64(feat.Arg)))
					dh.Set(7, VStruct(dph))
					if dictOffset < 0 {
						dictOffset = int64(len(out))
						for _, pg := range pages {
							dictOffset += int64(len(EncodeStruct(pg.header)) + len(pg.body))
						}
					}
					pages = append(pages, builtPage{header: dh, body: dcomp})
					// indices: bit width byte + hybrid body (no length prefix)
					w := BitWidth(len(dict) - 1)
					if w == 0 {
						w = 1
					}
					hb, err := EncodeHybridPlan(indices, w, DefaultPlan(indices))
					if err != nil {
						return nil, err
					}
					valBytes = append([]byte{byte(w)}, hb[4:]...)
					valEnc = feat.Arg
					encUsed[feat.Arg] = true
				}
				if feat != nil && feat.Kind == "value-encoding" {
					valEnc = feat.Arg
					encUsed[feat.Arg] = true
					if feat.Genuine {
						switch {
						case feat.Arg == EncRLE && leaf.Phys == PBoolean:
							// RLE-encoded booleans: length-prefixed hybrid of width 1
							var bits []uint8
							for _, v := range vals {
								if v.(bool) {
									bits = append(bits, 1)
								} else {
									bits = append(bits, 0)
								}
							}
							valBytes, _ = EncodeHybridPlan(bits, 1, DefaultPlan(bits))
						case feat.Arg == EncByteStreamSplit && (leaf.Phys == PFloat || leaf.Phys == PDouble || leaf.Phys == PInt32 || leaf.Phys == PInt64):
							sz := 4
							if leaf.Phys == PDouble || leaf.Phys == PInt64 {
								sz = 8
							}
							n := len(vals)
							split := make([]byte, len(valBytes))
							for i := 0; i < n; i++ {
								for k := 0; k < sz; k++ {
									split[k*n+i] = valBytes[i*sz+k]
								}
							}
							valBytes = split
						case feat.Arg == EncDeltaLenBA && leaf.Phys == PByteArray:
							// lengths as PLAIN int32 is not the real encoding; keep
							// lengths first then bytes, which is at least not PLAIN
							var lens, bytes_ []byte
							for _, v := range vals {
								s := v.(string)
								var l [4]byte
								binary.LittleEndian.PutUint32(l[:], uint32(len(s)))
								lens = append(lens, l[:]...)
								bytes_ = append(bytes_, s...)
							}
							valBytes = append(lens, bytes_...)
						}
					}
				}
				if feat != nil && feat.Kind == "index-page" {
					ih := &TS{}
					ih.Set(1, VI32(PageIndex)).Set(2, VI32(0)).Set(3, VI32(0))
					ih.Set(6, VStruct(&TS{}))
					pages = append(pages, builtPage{header: ih, body: nil})
				}
				var hdr *TS
				var body []byte
				if feat != nil && feat.Kind == "v2-page" {
					// genuine v2: levels uncompressed and without length prefix, values compressed
					var rb, db []byte
					if len(repBytes) > 0 {
						rb = repBytes[4:]
					}
					if len(defBytes) > 0 {
						db = defBytes[4:]
					}
					vcomp := compressWith(codec, cp.SnappyMode, valBytes)
					body = append(append(append([]byte(nil), rb...), db...), vcomp...)
					hdr = &TS{}
					hdr.Set(1, VI32(PageDataV2)).Set(2, VI32(int64(len(rb)+len(db)+len(valBytes)))).Set(3, VI32(int64(len(body))))
					v2 := &TS{}
					v2.Set(1, VI32(int64(len(ents)))).Set(2, VI32(int64(nulls))).Set(3, VI32(int64(s))).Set(4, VI32(EncPlain)).
						Set(5, VI32(int64(len(db)))).Set(6, VI32(int64(len(rb))))
					if codec == CodecNone {
						v2.Set(7, VBool(false))
					}
					hdr.Set(8, VStruct(v2))
				} else {
					data = append(append(append([]byte(nil), repBytes...), defBytes...), valBytes...)
					body = compressWith(codec, cp.SnappyMode, data)
					hdr = &TS{}
					hdr.Set(1, VI32(PageData)).Set(2, VI32(int64(len(data)))).Set(3, VI32(int64(len(body))))
					if cp.CRC {
						hdr.Set(4, VI32(int64(int32(crc32.ChecksumIEEE(body)))))
					}
					dph := &TS{}
					dph.Set(1, VI32(int64(len(ents)))).Set(2, VI32(int64(valEnc))).Set(3, VI32(int64(defEnc))).Set(4, VI32(int64(repEnc)))
					if cp.Stats != 0 {
						st := &TS{}
						mn, mx, ok := statBytes(leaf, vals)
						if cp.Stats != 4 {
							if ok && (cp.Stats == 2 || cp.Stats == 3) && (leaf.GoKind.String()[0] != 'u') {
								st.Set(1, VBin(mx)).Set(2, VBin(mn))
							}
							st.Set(3, VI64(int64(nulls)))
							if ok && (cp.Stats == 1 || cp.Stats == 3) {
								st.Set(5, VBin(mx)).Set(6, VBin(mn))
							}
						}
						dph.Set(5, VStruct(st))
					}
					hdr.Set(5, VStruct(dph))
				}
				if plan.UnknownIDs {
					hdr.Set(100, VI32(7))
				}
				pages = append(pages, builtPage{header: hdr, body: body, values: len(ents)})
				numValues += int64(len(ents))
			}
			var firstData int64 = -1
			for _, pg := range pages {
				hb := EncodeStruct(pg.header)
				if t, _ := pg.header.I(1); firstData < 0 && (t == PageData || t == PageDataV2) {
					firstData = int64(len(out))
				}
				u, _ := pg.header.I(2)
				sumComp += int64(len(hb) + len(pg.body))
				sumUncomp += int64(len(hb)) + u
				out = append(out, hb...)
				out = append(out, pg.body...)
			}
			if firstData < 0 {
				firstData = int64(chunkStart)
			}
			md := &TS{}
			md.Set(1, VI32(int64(leaf.Phys)))
			var encs []TVal
			for e := 0; e < 10; e++ {
				if encUsed[e] || (e == EncRLE && cp.EncodingsWithRLE) {
					encs = append(encs, VI32(int64(e)))
				}
			}
			md.Set(2, VList(TI32, encs))
			var path []TVal
			for _, p := range leaf.Path {
				path = append(path, VStr(p))
			}
			md.Set(3, VList(TBinary, path))
			md.Set(4, VI32(int64(metaCodec)))
			md.Set(5, VI64(numValues))
			md.Set(6, VI64(sumUncomp))
			md.Set(7, VI64(sumComp))
			if cp.KeyValue {
				kv := &TS{}
				kv.Set(1, VStr("k")).Set(2, VStr("v"))
				md.Set(8, VList(TStruct, []TVal{VStruct(kv)}))
			}
			md.Set(9, VI64(firstData))
			if dictOffset >= 0 {
				md.Set(11, VI64(dictOffset))
			}
			if cp.ChunkStatistics {
				st := &TS{}
				st.Set(3, VI64(0))
				md.Set(12, VStruct(st))
			}
			if cp.EncodingStats {
				es := &TS{}
				es.Set(1, VI32(PageData)).Set(2, VI32(EncPlain)).Set(3, VI32(int64(len(splits))))
				md.Set(13, VList(TStruct, []TVal{VStruct(es)}))
			}
			if plan.UnknownIDs {
				md.Set(99, VStr("future"))
			}
			cc := &TS{}
			if cp.FileOffsetZero {
				cc.Set(2, VI64(0))
			} else {
				cc.Set(2, VI64(int64(chunkStart)))
			}
			cc.Set(3, VStruct(md))
			if plan.UnknownIDs {
				cc.Set(50, VI64(1))
			}
			chunkVals = append(chunkVals, VStruct(cc))
			rgBytes += sumUncomp
		}
		rg := &TS{}
		rg.Set(1, VList(TStruct, chunkVals)).Set(2, VI64(rgBytes)).Set(3, VI64(int64(len(recs))))
		if plan.SortingCols {
			sc := &TS{}
			sc.Set(1, VI32(0)).Set(2, VBool(false)).Set(3, VBool(false))
			rg.Set(4, VList(TStruct, []TVal{VStruct(sc)}))
		}
		if plan.UnknownIDs {
			rg.Set(40, VI32(3))
		}
		rgVals = append(rgVals, VStruct(rg))
		totalRows += int64(len(recs))
	}
	// footer
	ft := &TS{}
	ver := plan.Version
	if ver == 0 {
		ver = 1
	}
	ft.Set(1, VI32(int64(ver)))
	ft.Set(2, VList(TStruct, SchemaElements(schema, plan.RootName, plan.UTF8)))
	ft.Set(3, VI64(totalRows))
	ft.Set(4, VList(TStruct, rgVals))
	if plan.KeyValue {
		kv := &TS{}
		kv.Set(1, VStr("writer.model.name")).Set(2, VStr("foreign"))
		ft.Set(5, VList(TStruct, []TVal{VStruct(kv)}))
	}
	if plan.CreatedBy != "" {
		ft.Set(6, VStr(plan.CreatedBy))
	}
	if plan.ColumnOrder {
		var cos []TVal
		for range leaves {
			co := &TS{}
			co.Set(1, VStruct(&TS{}))
			cos = append(cos, VStruct(co))
		}
		ft.Set(7, VList(TStruct, cos))
	}
	if plan.UnknownIDs {
		ft.Set(120, VStr("unknown"))
	}
	fb := EncodeStruct(ft)
	out = append(out, fb...)
	var l [4]byte
	binary.LittleEndian.PutUint32(l[:], uint32(len(fb)))
	out = append(out, l[:]...)
	out = append(out, "PAR1"...)
	return out, nil
}

// SchemaElements flattens a schema tree into footer elements.
func SchemaElements(root *Node, rootName string, utf8 bool) []TVal {
	if rootName == "" {
		rootName = "root"
	}
	var out []TVal
	re := &TS{}
	re.Set(4, VStr(rootName)).Set(5, VI32(int64(len(root.Children))))
	out = append(out, VStruct(re))
	var rec func(n *Node)
	rec = func(n *Node) {
		e := &TS{}
		if n.Leaf {
			e.Set(1, VI32(int64(n.Phys)))
		}
		e.Set(3, VI32(int64(n.Rep)))
		e.Set(4, VStr(n.Name))
		if !n.Leaf {
			e.Set(5, VI32(int64(len(n.Children))))
		}
		if n.Leaf && n.Conv != ConvNone {
			e.Set(6, VI32(int64(n.Conv)))
		} else if n.Leaf && n.Phys == PByteArray && utf8 {
			e.Set(6, VI32(ConvUTF8))
		}
		out = append(out, VStruct(e))
		for _, c := range n.Children {
			rec(c)
		}
	}
	for _, c := range root.Children {
		rec(c)
	}
	return out
}
