package refpq

import (
	"fmt"
)

// Entry is one (repetition level, definition level, value) triple of a column.
type Entry struct {
	R, D uint8
	V    interface{} // nil when D < max definition level
}

// Column is the striped form of one leaf.
type Column struct {
	Leaf    *Node
	Entries []Entry
}

// Stripe shreds records into columns exactly as the Dremel paper describes.
// The result has one Column per leaf in schema order.
func Stripe(root *Node, recs []Val) []*Column {
	leaves := root.Leaves()
	cols := make([]*Column, len(leaves))
	idx := map[*Node]int{}
	for i, l := range leaves {
		cols[i] = &Column{Leaf: l}
		idx[l] = i
	}
	var node func(n *Node, v Val, r, d uint8)
	var inner func(n *Node, v Val, r, d uint8)
	nulls := func(n *Node, r, d uint8) {
		for _, l := range n.Leaves() {
			c := cols[idx[l]]
			c.Entries = append(c.Entries, Entry{R: r, D: d})
		}
	}
	inner = func(n *Node, v Val, r, d uint8) {
		if n.Leaf {
			c := cols[idx[n]]
			c.Entries = append(c.Entries, Entry{R: r, D: d, V: v.Leaf})
			return
		}
		for i, ch := range n.Children {
			node(ch, v.Group[i], r, d)
		}
	}
	node = func(n *Node, v Val, r, d uint8) {
		switch n.Rep {
		case Required:
			inner(n, v, r, d)
		case Optional:
			if v.Null {
				nulls(n, r, d)
			} else {
				inner(n, v, r, d+1)
			}
		case Repeated:
			if len(v.List) == 0 {
				nulls(n, r, d)
				return
			}
			for i := range v.List {
				rr := r
				if i > 0 {
					rr = uint8(n.RepLevel)
				}
				inner(n, v.List[i], rr, d+1)
			}
		}
	}
	for _, rec := range recs {
		for i, ch := range root.Children {
			node(ch, rec.Group[i], 0, 0)
		}
	}
	return cols
}

// Assemble reconstructs records from columns knowing only the schema (the
// specification's record assembly).  It also checks that sibling columns
// describe the same optional/list structure and that levels are within range.
func Assemble(root *Node, cols []*Column) ([]Val, error) {
	leaves := root.Leaves()
	if len(cols) != len(leaves) {
		return nil, fmt.Errorf("assemble: %d columns for %d leaves", len(cols), len(leaves))
	}
	cur := map[*Node]int{}
	ent := map[*Node][]Entry{}
	for i, l := range leaves {
		ent[l] = cols[i].Entries
		for k, e := range cols[i].Entries {
			if int(e.D) > l.DefLevel || int(e.R) > l.RepLevel {
				return nil, fmt.Errorf("assemble: column %s entry %d has levels r=%d d=%d beyond max r=%d d=%d", l.PathKey(), k, e.R, e.D, l.RepLevel, l.DefLevel)
			}
			if (e.V != nil) != (int(e.D) == l.DefLevel) {
				return nil, fmt.Errorf("assemble: column %s entry %d: value presence disagrees with d=%d (max %d)", l.PathKey(), k, e.D, l.DefLevel)
			}
		}
	}
	peek := func(l *Node) (Entry, bool) {
		if cur[l] >= len(ent[l]) {
			return Entry{}, false
		}
		return ent[l][cur[l]], true
	}
	var node func(n *Node) (Val, error)
	var inner func(n *Node) (Val, error)
	consumeNull := func(n *Node) error {
		ls := n.Leaves()
		first, ok := peek(ls[0])
		if !ok {
			return fmt.Errorf("assemble: column %s exhausted", ls[0].PathKey())
		}
		for _, l := range ls {
			e, ok := peek(l)
			if !ok {
				return fmt.Errorf("assemble: column %s exhausted", l.PathKey())
			}
			if e.D != first.D || e.R != first.R {
				return fmt.Errorf("assemble: sibling columns %s (r=%d d=%d) and %s (r=%d d=%d) disagree about %s being undefined", ls[0].PathKey(), first.R, first.D, l.PathKey(), e.R, e.D, n.PathKey())
			}
			cur[l]++
		}
		return nil
	}
	inner = func(n *Node) (Val, error) {
		if n.Leaf {
			e, ok := peek(n)
			if !ok {
				return Val{}, fmt.Errorf("assemble: column %s exhausted", n.PathKey())
			}
			if int(e.D) != n.DefLevel {
				return Val{}, fmt.Errorf("assemble: column %s: expected a value (d=%d) but d=%d", n.PathKey(), n.DefLevel, e.D)
			}
			cur[n]++
			return Val{Leaf: e.V}, nil
		}
		out := Val{Group: make([]Val, len(n.Children))}
		for i, c := range n.Children {
			v, err := node(c)
			if err != nil {
				return Val{}, err
			}
			out.Group[i] = v
		}
		return out, nil
	}
	node = func(n *Node) (Val, error) {
		ls := n.Leaves()
		switch n.Rep {
		case Required:
			return inner(n)
		case Optional:
			e, ok := peek(ls[0])
			if !ok {
				return Val{}, fmt.Errorf("assemble: column %s exhausted", ls[0].PathKey())
			}
			if int(e.D) < n.DefLevel {
				// every sibling leaf must agree that n is null
				for _, l := range ls {
					e2, ok := peek(l)
					if !ok || int(e2.D) >= n.DefLevel {
						return Val{}, fmt.Errorf("assemble: sibling columns %s and %s disagree about %s being null", ls[0].PathKey(), l.PathKey(), n.PathKey())
					}
				}
				return Val{Null: true}, consumeNull(n)
			}
			for _, l := range ls {
				e2, ok := peek(l)
				if !ok || int(e2.D) < n.DefLevel {
					return Val{}, fmt.Errorf("assemble: sibling columns %s and %s disagree about %s being defined", ls[0].PathKey(), l.PathKey(), n.PathKey())
				}
			}
			return inner(n)
		case Repeated:
			e, ok := peek(ls[0])
			if !ok {
				return Val{}, fmt.Errorf("assemble: column %s exhausted", ls[0].PathKey())
			}
			if int(e.D) < n.DefLevel {
				for _, l := range ls {
					e2, ok := peek(l)
					if !ok || int(e2.D) >= n.DefLevel {
						return Val{}, fmt.Errorf("assemble: sibling columns %s and %s disagree about %s being empty", ls[0].PathKey(), l.PathKey(), n.PathKey())
					}
				}
				return Val{}, consumeNull(n)
			}
			out := Val{}
			for {
				for _, l := range ls {
					e2, ok := peek(l)
					if !ok || int(e2.D) < n.DefLevel {
						return Val{}, fmt.Errorf("assemble: sibling columns %s and %s disagree about an element of %s", ls[0].PathKey(), l.PathKey(), n.PathKey())
					}
				}
				v, err := inner(n)
				if err != nil {
					return Val{}, err
				}
				out.List = append(out.List, v)
				more := 0
				for _, l := range ls {
					if e2, ok := peek(l); ok && int(e2.R) == n.RepLevel {
						more++
					}
				}
				if more == 0 {
					break
				}
				if more != len(ls) {
					return Val{}, fmt.Errorf("assemble: sibling columns under %s disagree about the list length", n.PathKey())
				}
			}
			return out, nil
		}
		return Val{}, fmt.Errorf("bad repetition")
	}
	var recs []Val
	for {
		// finished when every column is exhausted
		done := 0
		for _, l := range leaves {
			if cur[l] >= len(ent[l]) {
				done++
			}
		}
		if done == len(leaves) {
			break
		}
		if done != 0 {
			return nil, fmt.Errorf("assemble: columns hold different numbers of records (after %d records)", len(recs))
		}
		for _, l := range leaves {
			if e, _ := peek(l); e.R != 0 {
				return nil, fmt.Errorf("assemble: column %s record %d does not start with r=0", l.PathKey(), len(recs))
			}
		}
		rec := Val{Group: make([]Val, len(root.Children))}
		for i, c := range root.Children {
			v, err := node(c)
			if err != nil {
				return nil, err
			}
			rec.Group[i] = v
		}
		// the next entry of each column must start a new record
		for _, l := range leaves {
			if e, ok := peek(l); ok && e.R != 0 {
				return nil, fmt.Errorf("assemble: column %s has stray entries (r=%d) after record %d", l.PathKey(), e.R, len(recs))
			}
		}
		recs = append(recs, rec)
		if len(leaves) == 0 {
			break
		}
	}
	return recs, nil
}

// RecordCount is the number of entries with r == 0.
func (c *Column) RecordCount() int {
	n := 0
	for _, e := range c.Entries {
		if e.R == 0 {
			n++
		}
	}
	return n
}

// EqualEntries compares two entry lists (floats by bits).
func EqualEntries(a, b []Entry) string {
	if len(a) != len(b) {
		return fmt.Sprintf("%d entries vs %d", len(a), len(b))
	}
	for i := range a {
		if a[i].R != b[i].R || a[i].D != b[i].D {
			return fmt.Sprintf("entry %d: (r=%d d=%d) vs (r=%d d=%d)", i, a[i].R, a[i].D, b[i].R, b[i].D)
		}
		if (a[i].V == nil) != (b[i].V == nil) {
			return fmt.Sprintf("entry %d: value presence differs", i)
		}
		if a[i].V != nil && LeafBits(a[i].V) != LeafBits(b[i].V) {
			return fmt.Sprintf("entry %d: value %s vs %s", i, fmtLeaf(a[i].V), fmtLeaf(b[i].V))
		}
	}
	return ""
}
