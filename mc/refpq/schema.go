package refpq

import (
	"fmt"
	"math"
	"reflect"
	"strings"
)

// Repetition of a schema node.
const (
	Required = 0
	Optional = 1
	Repeated = 2
)

// Physical types (parquet.thrift enum Type).
const (
	PBoolean   = 0
	PInt32     = 1
	PInt64     = 2
	PInt96     = 3
	PFloat     = 4
	PDouble    = 5
	PByteArray = 6
	PFixed     = 7
)

// Converted types used here (parquet.thrift enum ConvertedType).
const (
	ConvNone   = -1
	ConvUTF8   = 0
	ConvUint32 = 13
	ConvUint64 = 14
)

// Node is a node of a Parquet schema tree.
type Node struct {
	Name     string
	Rep      int
	Leaf     bool
	Phys     int
	Conv     int
	GoKind   reflect.Kind // Go kind of leaf values (int32, uint32, ...)
	Children []*Node

	// derived
	Path     []string
	DefLevel int // definition level at which this node is defined
	RepLevel int // repetition level of this node (number of repeated nodes on the path incl. itself)
	Parent   *Node
	// for mapping to Go structs: the index path of the field inside the parent Go struct
	GoIndex []int
}

// Finish computes derived fields for a tree rooted at n (the root group).
func (n *Node) Finish() *Node {
	var rec func(x *Node, path []string, d, r int)
	rec = func(x *Node, path []string, d, r int) {
		for _, c := range x.Children {
			c.Parent = x
			c.Path = append(append([]string(nil), path...), c.Name)
			cd, cr := d, r
			if c.Rep != Required {
				cd++
			}
			if c.Rep == Repeated {
				cr++
			}
			c.DefLevel, c.RepLevel = cd, cr
			rec(c, c.Path, cd, cr)
		}
	}
	n.Path = nil
	rec(n, nil, 0, 0)
	return n
}

// Leaves returns the leaf nodes under n in schema (pre-)order.
func (n *Node) Leaves() []*Node {
	var out []*Node
	var rec func(x *Node)
	rec = func(x *Node) {
		if x.Leaf {
			out = append(out, x)
			return
		}
		for _, c := range x.Children {
			rec(c)
		}
	}
	rec(n)
	return out
}

// PathKey is the dotted column path.
func (n *Node) PathKey() string { return strings.Join(n.Path, ".") }

// RepPath lists the repetition of every element on the path to n (excluding the root).
func (n *Node) RepPath() []int {
	var out []int
	for x := n; x != nil && x.Parent != nil; x = x.Parent {
		out = append([]int{x.Rep}, out...)
	}
	return out
}

func (n *Node) String() string {
	var sb strings.Builder
	var rec func(x *Node, ind string)
	rec = func(x *Node, ind string) {
		rep := []string{"required", "optional", "repeated"}[x.Rep]
		if x.Leaf {
			fmt.Fprintf(&sb, "%s%s %s phys=%d conv=%d\n", ind, rep, x.Name, x.Phys, x.Conv)
		} else {
			fmt.Fprintf(&sb, "%s%s group %s {\n", ind, rep, x.Name)
			for _, c := range x.Children {
				rec(c, ind+"  ")
			}
			fmt.Fprintf(&sb, "%s}\n", ind)
		}
	}
	rec(n, "")
	return sb.String()
}

func leafFor(k reflect.Kind) (phys, conv int, ok bool) {
	switch k {
	case reflect.Int32:
		return PInt32, ConvNone, true
	case reflect.Uint32:
		return PInt32, ConvUint32, true
	case reflect.Int64:
		return PInt64, ConvNone, true
	case reflect.Uint64:
		return PInt64, ConvUint64, true
	case reflect.Float32:
		return PFloat, ConvNone, true
	case reflect.Float64:
		return PDouble, ConvNone, true
	case reflect.Bool:
		return PBoolean, ConvNone, true
	case reflect.String:
		return PByteArray, ConvNone, true
	}
	return 0, 0, false
}

// SchemaOf derives the Parquet schema of a Go struct type by the rules in the
// library's README: the eight primitive types; *T optional; []T repeated;
// struct, *struct and []struct groups; embedded structs inlined;
// `parquet:"name"` renames; `parquet:"-"` and unexported fields are excluded.
// Fields of any other type are ignored (parquetgen -ignore default).
func SchemaOf(t reflect.Type) *Node {
	root := &Node{Name: "root", Rep: Required}
	root.Children = structChildren(t, nil)
	return root.Finish()
}

func structChildren(t reflect.Type, prefix []int) []*Node {
	var out []*Node
	for i := 0; i < t.NumField(); i++ {
		f := t.Field(i)
		idx := append(append([]int(nil), prefix...), i)
		tag := f.Tag.Get("parquet")
		if tag == "-" {
			continue
		}
		if f.Anonymous {
			if f.Type.Kind() == reflect.Struct && f.PkgPath == "" {
				out = append(out, structChildren(f.Type, idx)...)
			}
			continue
		}
		if f.PkgPath != "" { // unexported
			continue
		}
		name := tag
		if name == "" {
			name = f.Name
		}
		ft := f.Type
		rep := Required
		switch ft.Kind() {
		case reflect.Ptr:
			rep = Optional
			ft = ft.Elem()
		case reflect.Slice:
			rep = Repeated
			ft = ft.Elem()
		}
		if ft.Kind() == reflect.Struct {
			ch := structChildren(ft, nil)
			if len(ch) == 0 {
				continue
			}
			out = append(out, &Node{Name: name, Rep: rep, Children: ch, GoIndex: idx})
			continue
		}
		phys, conv, ok := leafFor(ft.Kind())
		if !ok {
			continue
		}
		out = append(out, &Node{Name: name, Rep: rep, Leaf: true, Phys: phys, Conv: conv, GoKind: ft.Kind(), GoIndex: idx})
	}
	return out
}

// Val is a generic value of a schema node.
//   - for a repeated node: List holds the elements (each a Val with Group or Leaf set)
//   - for an optional node: Null, or Group/Leaf
//   - for a required node: Group/Leaf
type Val struct {
	Null  bool
	List  []Val
	Group []Val
	Leaf  interface{}
}

// FromGo converts a Go struct value into the generic record under schema root.
func FromGo(root *Node, v reflect.Value) Val {
	return Val{Group: groupFromGo(root, v)}
}

func groupFromGo(n *Node, v reflect.Value) []Val {
	out := make([]Val, len(n.Children))
	for i, c := range n.Children {
		out[i] = nodeFromGo(c, v.FieldByIndex(c.GoIndex))
	}
	return out
}

func innerFromGo(n *Node, v reflect.Value) Val {
	if n.Leaf {
		return Val{Leaf: v.Interface()}
	}
	return Val{Group: groupFromGo(n, v)}
}

func nodeFromGo(n *Node, v reflect.Value) Val {
	switch n.Rep {
	case Optional:
		if v.IsNil() {
			return Val{Null: true}
		}
		return innerFromGo(n, v.Elem())
	case Repeated:
		out := Val{}
		for i := 0; i < v.Len(); i++ {
			out.List = append(out.List, innerFromGo(n, v.Index(i)))
		}
		return out
	}
	return innerFromGo(n, v)
}

// ToGo writes the generic record into a Go struct (addressable).
func ToGo(root *Node, rec Val, dst reflect.Value) {
	groupToGo(root, rec.Group, dst)
}

func groupToGo(n *Node, g []Val, dst reflect.Value) {
	for i, c := range n.Children {
		nodeToGo(c, g[i], dst.FieldByIndex(c.GoIndex))
	}
}

func innerToGo(n *Node, v Val, dst reflect.Value) {
	if n.Leaf {
		dst.Set(reflect.ValueOf(v.Leaf).Convert(dst.Type()))
		return
	}
	groupToGo(n, v.Group, dst)
}

func nodeToGo(n *Node, v Val, dst reflect.Value) {
	switch n.Rep {
	case Optional:
		if v.Null {
			dst.Set(reflect.Zero(dst.Type()))
			return
		}
		p := reflect.New(dst.Type().Elem())
		innerToGo(n, v, p.Elem())
		dst.Set(p)
	case Repeated:
		s := reflect.MakeSlice(dst.Type(), len(v.List), len(v.List))
		for i := range v.List {
			innerToGo(n, v.List[i], s.Index(i))
		}
		if len(v.List) == 0 {
			s = reflect.Zero(dst.Type())
		}
		dst.Set(s)
	default:
		innerToGo(n, v, dst)
	}
}

// LeafBits maps a leaf value to a comparable representation (floats by bits).
func LeafBits(x interface{}) interface{} {
	switch t := x.(type) {
	case float32:
		return fmt.Sprintf("f32:%08x", math.Float32bits(t))
	case float64:
		return fmt.Sprintf("f64:%016x", math.Float64bits(t))
	}
	return x
}

// EqualVal compares two values of node n: nil and empty lists are the same,
// floats compare bit for bit.  It returns a description of the first
// difference, or "".
func EqualVal(n *Node, a, b Val) string {
	return eqNode(n, a, b, true)
}

func eqInner(n *Node, a, b Val) string {
	if n.Leaf {
		if LeafBits(a.Leaf) != LeafBits(b.Leaf) {
			return fmt.Sprintf("%s: %v != %v", n.PathKey(), fmtLeaf(a.Leaf), fmtLeaf(b.Leaf))
		}
		return ""
	}
	for i, c := range n.Children {
		if i >= len(a.Group) || i >= len(b.Group) {
			return fmt.Sprintf("%s: group arity", n.PathKey())
		}
		if d := eqNode(c, a.Group[i], b.Group[i], false); d != "" {
			return d
		}
	}
	return ""
}

func eqNode(n *Node, a, b Val, root bool) string {
	if root {
		return eqInner(n, a, b)
	}
	switch n.Rep {
	case Optional:
		if a.Null != b.Null {
			return fmt.Sprintf("%s: null=%v vs null=%v", n.PathKey(), a.Null, b.Null)
		}
		if a.Null {
			return ""
		}
		return eqInner(n, a, b)
	case Repeated:
		if len(a.List) != len(b.List) {
			return fmt.Sprintf("%s: len %d != %d", n.PathKey(), len(a.List), len(b.List))
		}
		for i := range a.List {
			if d := eqInner(n, a.List[i], b.List[i]); d != "" {
				return fmt.Sprintf("[%d]%s", i, d)
			}
		}
		return ""
	}
	return eqInner(n, a, b)
}

func fmtLeaf(x interface{}) string {
	switch t := x.(type) {
	case string:
		if len(t) > 24 {
			return fmt.Sprintf("%q...(%d)", t[:24], len(t))
		}
		return fmt.Sprintf("%q", t)
	case float32:
		return fmt.Sprintf("%v(%08x)", t, math.Float32bits(t))
	case float64:
		return fmt.Sprintf("%v(%016x)", t, math.Float64bits(t))
	}
	return fmt.Sprintf("%v", x)
}

// FmtVal renders a value compactly (for samples and replay descriptions).
func FmtVal(n *Node, v Val) string {
	var sb strings.Builder
	var inner func(x *Node, v Val)
	var node func(x *Node, v Val)
	inner = func(x *Node, v Val) {
		if x.Leaf {
			sb.WriteString(fmtLeaf(v.Leaf))
			return
		}
		sb.WriteString("{")
		for i, c := range x.Children {
			if i > 0 {
				sb.WriteString(" ")
			}
			sb.WriteString(c.Name + ":")
			node(c, v.Group[i])
		}
		sb.WriteString("}")
	}
	node = func(x *Node, v Val) {
		switch x.Rep {
		case Optional:
			if v.Null {
				sb.WriteString("nil")
				return
			}
			sb.WriteString("&")
			inner(x, v)
		case Repeated:
			sb.WriteString("[")
			for i := range v.List {
				if i > 0 {
					sb.WriteString(",")
				}
				inner(x, v.List[i])
			}
			sb.WriteString("]")
		default:
			inner(x, v)
		}
	}
	inner(n, v)
	return sb.String()
}
