package refpq

import (
	"encoding/binary"
	"fmt"
)

// Run describes one run of an RLE/bit-packed hybrid stream.
type Run struct {
	RLE   bool
	Count int   // number of values the run carries (groups*8 for bit-packed)
	Val   uint8 // the repeated value for RLE runs
	Hdr   int   // header length in bytes
}

// BitWidth returns the number of bits needed for levels 0..max.
func BitWidth(max int) int {
	w := 0
	for max > 0 {
		w++
		max >>= 1
	}
	return w
}

// DecodeHybrid decodes a length-prefixed hybrid stream from the start of b,
// strictly.  n is the number of values the caller expects.  It returns the n
// values, the run structure, the number of bytes consumed (4 + length) and a
// list of well-formedness complaints (empty for a well-formed stream).
func DecodeHybrid(b []byte, width, n int) (vals []uint8, runs []Run, consumed int, bad []string, err error) {
	if len(b) < 4 {
		return nil, nil, 0, nil, fmt.Errorf("hybrid: no length prefix (%d bytes)", len(b))
	}
	l := int(binary.LittleEndian.Uint32(b))
	if l < 0 || l > len(b)-4 {
		return nil, nil, 0, nil, fmt.Errorf("hybrid: length prefix %d exceeds available %d", l, len(b)-4)
	}
	body := b[4 : 4+l]
	vals, runs, bad, err = DecodeHybridBody(body, width, n)
	return vals, runs, 4 + l, bad, err
}

// DecodeHybridBody decodes runs until the body is exhausted.
func DecodeHybridBody(body []byte, width, n int) (vals []uint8, runs []Run, bad []string, err error) {
	p := 0
	vbytes := (width + 7) / 8
	for p < len(body) {
		// ULEB128 header
		var h uint64
		var s uint
		hp := p
		for {
			if p >= len(body) {
				return nil, nil, nil, fmt.Errorf("hybrid: truncated run header at %d", hp)
			}
			c := body[p]
			p++
			h |= uint64(c&0x7f) << s
			if c&0x80 == 0 {
				break
			}
			s += 7
			if s > 35 {
				return nil, nil, nil, fmt.Errorf("hybrid: run header too long at %d", hp)
			}
		}
		if h&1 == 1 {
			groups := int(h >> 1)
			if groups == 0 {
				bad = append(bad, fmt.Sprintf("bit-packed run with 0 groups at %d", hp))
			}
			nb := groups * width
			if p+nb > len(body) {
				return nil, nil, nil, fmt.Errorf("hybrid: bit-packed run of %d groups at %d needs %d bytes, %d left", groups, hp, nb, len(body)-p)
			}
			for g := 0; g < groups; g++ {
				vals = append(vals, unpackGroup(body[p+g*width:p+(g+1)*width], width)...)
			}
			p += nb
			runs = append(runs, Run{Count: groups * 8, Hdr: p - nb - hp})
		} else {
			cnt := int(h >> 1)
			if cnt == 0 {
				bad = append(bad, fmt.Sprintf("RLE run with count 0 at %d", hp))
			}
			if p+vbytes > len(body) {
				return nil, nil, nil, fmt.Errorf("hybrid: RLE run at %d lacks its value", hp)
			}
			var v uint64
			for i := 0; i < vbytes; i++ {
				v |= uint64(body[p+i]) << (8 * uint(i))
			}
			p += vbytes
			if v >= 1<<uint(width) {
				bad = append(bad, fmt.Sprintf("RLE value %d does not fit width %d at %d", v, width, hp))
			}
			if len(vals)+cnt > 1<<26 {
				return nil, nil, nil, fmt.Errorf("hybrid: absurd run length %d", cnt)
			}
			for i := 0; i < cnt; i++ {
				vals = append(vals, uint8(v))
			}
			runs = append(runs, Run{RLE: true, Count: cnt, Val: uint8(v), Hdr: p - vbytes - hp})
		}
	}
	if len(vals) < n {
		return nil, nil, nil, fmt.Errorf("hybrid: stream holds %d values, %d expected", len(vals), n)
	}
	pad := len(vals) - n
	if pad > 0 {
		if pad >= 8 {
			bad = append(bad, fmt.Sprintf("%d padding values (>= 8)", pad))
		}
		if len(runs) > 0 && runs[len(runs)-1].RLE {
			bad = append(bad, fmt.Sprintf("stream over-long by %d values and ends in an RLE run", pad))
		}
	}
	return vals[:n], runs, bad, nil
}

// unpackGroup unpacks 8 values of the given width: LSB-first, little-endian.
func unpackGroup(b []byte, width int) []uint8 {
	out := make([]uint8, 8)
	bit := 0
	for i := 0; i < 8; i++ {
		var v uint8
		for k := 0; k < width; k++ {
			if b[bit>>3]>>(uint(bit)&7)&1 == 1 {
				v |= 1 << uint(k)
			}
			bit++
		}
		out[i] = v
	}
	return out
}

// PackGroup packs 8 values LSB-first little-endian (the specification's
// layout) into width bytes.
func PackGroup(vals []uint8, width int) []byte {
	out := make([]byte, width)
	bit := 0
	for i := 0; i < 8; i++ {
		for k := 0; k < width; k++ {
			if vals[i]>>uint(k)&1 == 1 {
				out[bit>>3] |= 1 << (uint(bit) & 7)
			}
			bit++
		}
	}
	return out
}

// UnpackGroup is the exported reference unpacker.
func UnpackGroup(b []byte, width int) []uint8 { return unpackGroup(b, width) }

// RunSpec is one element of an encoding plan: an RLE run of N values or a
// bit-packed run of N groups.
type RunSpec struct {
	RLE bool
	N   int
}

func uleb(x uint64) []byte {
	var out []byte
	for x >= 0x80 {
		out = append(out, byte(x)|0x80)
		x >>= 7
	}
	return append(out, byte(x))
}

// EncodeHybridPlan encodes vals under an explicit run plan and returns the
// length-prefixed stream.  The plan must cover exactly len(vals) values
// (a final bit-packed run may extend past the end by < 8 padding zeros).
func EncodeHybridPlan(vals []uint8, width int, plan []RunSpec) ([]byte, error) {
	var body []byte
	p := 0
	vbytes := (width + 7) / 8
	for i, r := range plan {
		if r.RLE {
			if p+r.N > len(vals) {
				return nil, fmt.Errorf("plan run %d overruns", i)
			}
			for k := 1; k < r.N; k++ {
				if vals[p+k] != vals[p] {
					return nil, fmt.Errorf("plan run %d: RLE over unequal values", i)
				}
			}
			body = append(body, uleb(uint64(r.N)<<1)...)
			var v uint8
			if r.N > 0 {
				v = vals[p]
			}
			for k := 0; k < vbytes; k++ {
				body = append(body, byte(uint(v)>>(8*uint(k))))
			}
			p += r.N
		} else {
			body = append(body, uleb(uint64(r.N)<<1|1)...)
			for g := 0; g < r.N; g++ {
				grp := make([]uint8, 8)
				for k := 0; k < 8; k++ {
					if p < len(vals) {
						grp[k] = vals[p]
						p++
					} else if i != len(plan)-1 || g != r.N-1 {
						return nil, fmt.Errorf("plan run %d: padding before the last group", i)
					}
				}
				body = append(body, PackGroup(grp, width)...)
			}
		}
	}
	if p != len(vals) {
		return nil, fmt.Errorf("plan covers %d of %d values", p, len(vals))
	}
	out := make([]byte, 4, 4+len(body))
	binary.LittleEndian.PutUint32(out, uint32(len(body)))
	return append(out, body...), nil
}

// DefaultPlan is a simple canonical plan: maximal constant stretches of
// length >= 8 become RLE runs, everything else is bit-packed.  (It is *a*
// legal plan, not necessarily the library's.)
func DefaultPlan(vals []uint8) []RunSpec {
	var plan []RunSpec
	n := len(vals)
	i := 0
	pend := 0 // values pending for bit-packing (multiple of 8 boundary handling)
	flush := func(final bool) {
		if pend == 0 {
			return
		}
		g := (pend + 7) / 8
		plan = append(plan, RunSpec{N: g})
		pend = 0
	}
	for i < n {
		j := i
		for j < n && vals[j] == vals[i] {
			j++
		}
		l := j - i
		// to RLE a stretch, the pending bit-packed values must be a multiple of 8
		need := (8 - pend%8) % 8
		if l-need >= 8 {
			pend += need
			flush(false)
			plan = append(plan, RunSpec{RLE: true, N: l - need})
		} else {
			pend += l
		}
		i = j
	}
	flush(true)
	return plan
}

// AllPlans enumerates every legal plan for vals (RLE runs of any length >= 1
// over equal values; bit-packed runs of any group count >= 1, only the final
// group padded) and calls f for each.  The number of plans grows
// exponentially; callers bound len(vals).  f returning false stops.
func AllPlans(vals []uint8, f func([]RunSpec) bool) {
	n := len(vals)
	var cur []RunSpec
	var rec func(p int) bool
	rec = func(p int) bool {
		if p >= n {
			cp := append([]RunSpec(nil), cur...)
			return f(cp)
		}
		// RLE runs
		for k := 1; p+k <= n; k++ {
			if vals[p+k-1] != vals[p] {
				break
			}
			// two adjacent RLE runs of the same value are legal too
			cur = append(cur, RunSpec{RLE: true, N: k})
			ok := rec(p + k)
			cur = cur[:len(cur)-1]
			if !ok {
				return false
			}
		}
		// bit-packed runs; a bit-packed run directly following a bit-packed
		// run is legal as well (that is how > 63 groups are written).
		for g := 1; ; g++ {
			end := p + 8*g
			cur = append(cur, RunSpec{N: g})
			var ok bool
			if end >= n {
				ok = rec(n)
			} else {
				ok = rec(end)
			}
			cur = cur[:len(cur)-1]
			if !ok {
				return false
			}
			if end >= n {
				break
			}
		}
		return true
	}
	rec(0)
}

// CountPlans returns the number of plans AllPlans would enumerate.
func CountPlans(vals []uint8) int {
	c := 0
	AllPlans(vals, func([]RunSpec) bool { c++; return true })
	return c
}
