// Package refpq is an independent reference implementation of the subset of
// the Parquet format that parsyl/parquet reads and writes.  It is written from
// the format specification and schema/parquet.thrift (the IDL), and shares no
// code with the library under test.
package refpq

import (
	"encoding/binary"
	"errors"
	"fmt"
	"math"
)

// Thrift compact protocol wire types.
const (
	TStop   = 0
	TTrue   = 1
	TFalse  = 2
	TByte   = 3
	TI16    = 4
	TI32    = 5
	TI64    = 6
	TDouble = 7
	TBinary = 8
	TList   = 9
	TSet    = 10
	TMap    = 11
	TStruct = 12
)

// TVal is a generic thrift value.
type TVal struct {
	Type byte // wire type; TTrue/TFalse for bools
	I    int64
	D    float64
	B    []byte
	Elem byte   // element type for lists/sets
	L    []TVal // list/set elements
	S    *TS    // struct
}

// TField is one field of a struct.
type TField struct {
	ID  int16
	Val TVal
}

// TS is a generic thrift struct: fields in wire order.
type TS struct {
	Fields []TField
}

// Get returns the first field with the id.
func (s *TS) Get(id int16) (TVal, bool) {
	if s == nil {
		return TVal{}, false
	}
	for _, f := range s.Fields {
		if f.ID == id {
			return f.Val, true
		}
	}
	return TVal{}, false
}

// Set replaces or appends a field, keeping ids ascending when appended in order.
func (s *TS) Set(id int16, v TVal) *TS {
	for i, f := range s.Fields {
		if f.ID == id {
			s.Fields[i].Val = v
			return s
		}
	}
	// insert sorted
	pos := len(s.Fields)
	for i, f := range s.Fields {
		if f.ID > id {
			pos = i
			break
		}
	}
	s.Fields = append(s.Fields, TField{})
	copy(s.Fields[pos+1:], s.Fields[pos:])
	s.Fields[pos] = TField{ID: id, Val: v}
	return s
}

// Del removes a field.
func (s *TS) Del(id int16) *TS {
	out := s.Fields[:0:0]
	for _, f := range s.Fields {
		if f.ID != id {
			out = append(out, f)
		}
	}
	s.Fields = out
	return s
}

func (s *TS) I(id int16) (int64, bool) {
	v, ok := s.Get(id)
	if !ok {
		return 0, false
	}
	switch v.Type {
	case TByte, TI16, TI32, TI64:
		return v.I, true
	}
	return 0, false
}

func (s *TS) Bin(id int16) ([]byte, bool) {
	v, ok := s.Get(id)
	if !ok || v.Type != TBinary {
		return nil, false
	}
	return v.B, true
}

func (s *TS) Struct(id int16) (*TS, bool) {
	v, ok := s.Get(id)
	if !ok || v.Type != TStruct {
		return nil, false
	}
	return v.S, true
}

func (s *TS) List(id int16) ([]TVal, bool) {
	v, ok := s.Get(id)
	if !ok || (v.Type != TList && v.Type != TSet) {
		return nil, false
	}
	return v.L, true
}

// Constructors.
func VI32(x int64) TVal           { return TVal{Type: TI32, I: x} }
func VI64(x int64) TVal           { return TVal{Type: TI64, I: x} }
func VI16(x int64) TVal           { return TVal{Type: TI16, I: x} }
func VByte(x int64) TVal          { return TVal{Type: TByte, I: x} }
func VBin(b []byte) TVal          { return TVal{Type: TBinary, B: b} }
func VStr(s string) TVal          { return TVal{Type: TBinary, B: []byte(s)} }
func VStruct(s *TS) TVal          { return TVal{Type: TStruct, S: s} }
func VList(e byte, l []TVal) TVal { return TVal{Type: TList, Elem: e, L: l} }
func VBool(b bool) TVal {
	if b {
		return TVal{Type: TTrue}
	}
	return TVal{Type: TFalse}
}

var errTrunc = errors.New("thrift: truncated")

type tdec struct {
	b     []byte
	p     int
	depth int
}

func (d *tdec) byte() (byte, error) {
	if d.p >= len(d.b) {
		return 0, errTrunc
	}
	c := d.b[d.p]
	d.p++
	return c, nil
}

func (d *tdec) uvarint() (uint64, error) {
	var x uint64
	var s uint
	for i := 0; i < 10; i++ {
		c, err := d.byte()
		if err != nil {
			return 0, err
		}
		x |= uint64(c&0x7f) << s
		if c&0x80 == 0 {
			return x, nil
		}
		s += 7
	}
	return 0, errors.New("thrift: varint too long")
}

func (d *tdec) zigzag() (int64, error) {
	u, err := d.uvarint()
	if err != nil {
		return 0, err
	}
	return int64(u>>1) ^ -int64(u&1), nil
}

func (d *tdec) value(t byte) (TVal, error) {
	switch t {
	case TTrue, TFalse:
		// only reached for list elements: one byte
		c, err := d.byte()
		if err != nil {
			return TVal{}, err
		}
		if c == TTrue {
			return TVal{Type: TTrue}, nil
		}
		return TVal{Type: TFalse}, nil
	case TByte:
		c, err := d.byte()
		return TVal{Type: TByte, I: int64(int8(c))}, err
	case TI16, TI32, TI64:
		x, err := d.zigzag()
		return TVal{Type: t, I: x}, err
	case TDouble:
		if d.p+8 > len(d.b) {
			return TVal{}, errTrunc
		}
		u := binary.LittleEndian.Uint64(d.b[d.p:])
		d.p += 8
		return TVal{Type: TDouble, D: math.Float64frombits(u)}, nil
	case TBinary:
		n, err := d.uvarint()
		if err != nil {
			return TVal{}, err
		}
		if n > uint64(len(d.b)-d.p) {
			return TVal{}, errTrunc
		}
		b := d.b[d.p : d.p+int(n)]
		d.p += int(n)
		return TVal{Type: TBinary, B: b}, nil
	case TList, TSet:
		h, err := d.byte()
		if err != nil {
			return TVal{}, err
		}
		et := h & 0x0f
		n := uint64(h >> 4)
		if n == 15 {
			n, err = d.uvarint()
			if err != nil {
				return TVal{}, err
			}
		}
		if n > uint64(len(d.b)-d.p) && et != TStruct {
			return TVal{}, errTrunc
		}
		if n > uint64(len(d.b)) {
			return TVal{}, errTrunc
		}
		out := TVal{Type: t, Elem: et, L: make([]TVal, 0, n)}
		for i := uint64(0); i < n; i++ {
			v, err := d.value(et)
			if err != nil {
				return TVal{}, err
			}
			out.L = append(out.L, v)
		}
		return out, nil
	case TMap:
		n, err := d.uvarint()
		if err != nil {
			return TVal{}, err
		}
		out := TVal{Type: TMap}
		if n == 0 {
			return out, nil
		}
		kv, err := d.byte()
		if err != nil {
			return TVal{}, err
		}
		if n > uint64(len(d.b)) {
			return TVal{}, errTrunc
		}
		for i := uint64(0); i < n; i++ {
			k, err := d.value(kv >> 4)
			if err != nil {
				return TVal{}, err
			}
			v, err := d.value(kv & 0xf)
			if err != nil {
				return TVal{}, err
			}
			out.L = append(out.L, k, v)
		}
		out.Elem = kv
		return out, nil
	case TStruct:
		s, err := d.strct()
		return TVal{Type: TStruct, S: s}, err
	}
	return TVal{}, fmt.Errorf("thrift: unknown wire type %d", t)
}

func (d *tdec) strct() (*TS, error) {
	d.depth++
	defer func() { d.depth-- }()
	if d.depth > 64 {
		return nil, errors.New("thrift: nesting too deep")
	}
	s := &TS{}
	var last int16
	for {
		h, err := d.byte()
		if err != nil {
			return nil, err
		}
		if h == TStop {
			return s, nil
		}
		t := h & 0x0f
		delta := h >> 4
		var id int16
		if delta == 0 {
			x, err := d.zigzag()
			if err != nil {
				return nil, err
			}
			id = int16(x)
		} else {
			id = last + int16(delta)
		}
		last = id
		var v TVal
		if t == TTrue || t == TFalse {
			v = TVal{Type: t}
		} else {
			v, err = d.value(t)
			if err != nil {
				return nil, err
			}
		}
		s.Fields = append(s.Fields, TField{ID: id, Val: v})
	}
}

// DecodeStruct decodes one thrift-compact struct from the start of b and
// returns it with the number of bytes consumed.
func DecodeStruct(b []byte) (*TS, int, error) {
	d := &tdec{b: b}
	s, err := d.strct()
	if err != nil {
		return nil, d.p, err
	}
	return s, d.p, nil
}

type tenc struct{ b []byte }

func (e *tenc) uvarint(x uint64) {
	for x >= 0x80 {
		e.b = append(e.b, byte(x)|0x80)
		x >>= 7
	}
	e.b = append(e.b, byte(x))
}

func (e *tenc) zigzag(x int64) { e.uvarint(uint64(x<<1) ^ uint64(x>>63)) }

func (e *tenc) value(v TVal) {
	switch v.Type {
	case TTrue, TFalse:
		e.b = append(e.b, v.Type)
	case TByte:
		e.b = append(e.b, byte(v.I))
	case TI16, TI32, TI64:
		e.zigzag(v.I)
	case TDouble:
		var t [8]byte
		binary.LittleEndian.PutUint64(t[:], math.Float64bits(v.D))
		e.b = append(e.b, t[:]...)
	case TBinary:
		e.uvarint(uint64(len(v.B)))
		e.b = append(e.b, v.B...)
	case TList, TSet:
		if len(v.L) < 15 {
			e.b = append(e.b, byte(len(v.L))<<4|v.Elem)
		} else {
			e.b = append(e.b, 0xf0|v.Elem)
			e.uvarint(uint64(len(v.L)))
		}
		for _, x := range v.L {
			e.value(x)
		}
	case TMap:
		e.uvarint(uint64(len(v.L) / 2))
		if len(v.L) > 0 {
			e.b = append(e.b, v.Elem)
			for _, x := range v.L {
				e.value(x)
			}
		}
	case TStruct:
		e.strct(v.S)
	default:
		panic(fmt.Sprintf("thrift enc: bad type %d", v.Type))
	}
}

func (e *tenc) strct(s *TS) {
	var last int16
	for _, f := range s.Fields {
		t := f.Val.Type
		d := f.ID - last
		if d > 0 && d <= 15 {
			e.b = append(e.b, byte(d)<<4|t)
		} else {
			e.b = append(e.b, t)
			e.zigzag(int64(f.ID))
		}
		last = f.ID
		if t != TTrue && t != TFalse {
			e.value(f.Val)
		}
	}
	e.b = append(e.b, TStop)
}

// EncodeStruct serialises a struct with the compact protocol.
func EncodeStruct(s *TS) []byte {
	e := &tenc{}
	e.strct(s)
	return e.b
}
