package refpq

import (
	"encoding/hex"
	"encoding/json"
	"fmt"
	"math"
	"strconv"
	"strings"
)

// EncodeLeaf renders a leaf exactly (floats by bits, strings in hex).
func EncodeLeaf(x interface{}) string {
	switch t := x.(type) {
	case int32:
		return "i32:" + strconv.FormatInt(int64(t), 10)
	case uint32:
		return "u32:" + strconv.FormatUint(uint64(t), 10)
	case int64:
		return "i64:" + strconv.FormatInt(t, 10)
	case uint64:
		return "u64:" + strconv.FormatUint(t, 10)
	case float32:
		return fmt.Sprintf("f32:%08x", math.Float32bits(t))
	case float64:
		return fmt.Sprintf("f64:%016x", math.Float64bits(t))
	case bool:
		if t {
			return "b:1"
		}
		return "b:0"
	case string:
		return "s:" + hex.EncodeToString([]byte(t))
	}
	panic(fmt.Sprintf("EncodeLeaf %T", x))
}

// DecodeLeaf is the inverse of EncodeLeaf.
func DecodeLeaf(s string) (interface{}, error) {
	i := strings.IndexByte(s, ':')
	if i < 0 {
		return nil, fmt.Errorf("bad leaf %q", s)
	}
	k, v := s[:i], s[i+1:]
	switch k {
	case "i32":
		x, err := strconv.ParseInt(v, 10, 32)
		return int32(x), err
	case "u32":
		x, err := strconv.ParseUint(v, 10, 32)
		return uint32(x), err
	case "i64":
		x, err := strconv.ParseInt(v, 10, 64)
		return x, err
	case "u64":
		x, err := strconv.ParseUint(v, 10, 64)
		return x, err
	case "f32":
		x, err := strconv.ParseUint(v, 16, 32)
		return math.Float32frombits(uint32(x)), err
	case "f64":
		x, err := strconv.ParseUint(v, 16, 64)
		return math.Float64frombits(x), err
	case "b":
		return v == "1", nil
	case "s":
		b, err := hex.DecodeString(v)
		return string(b), err
	}
	return nil, fmt.Errorf("bad leaf kind %q", k)
}

// ValToJSON renders a record of root as schema-driven JSON.
func ValToJSON(root *Node, v Val) interface{} {
	var inner func(n *Node, v Val) interface{}
	var node func(n *Node, v Val) interface{}
	inner = func(n *Node, v Val) interface{} {
		if n.Leaf {
			return EncodeLeaf(v.Leaf)
		}
		out := make([]interface{}, len(n.Children))
		for i, c := range n.Children {
			out[i] = node(c, v.Group[i])
		}
		return out
	}
	node = func(n *Node, v Val) interface{} {
		switch n.Rep {
		case Optional:
			if v.Null {
				return nil
			}
			return inner(n, v)
		case Repeated:
			out := make([]interface{}, len(v.List))
			for i := range v.List {
				out[i] = inner(n, v.List[i])
			}
			return out
		}
		return inner(n, v)
	}
	return inner(root, v)
}

// ValFromJSON is the inverse of ValToJSON (x as produced by encoding/json).
func ValFromJSON(root *Node, x interface{}) (Val, error) {
	var inner func(n *Node, x interface{}) (Val, error)
	var node func(n *Node, x interface{}) (Val, error)
	inner = func(n *Node, x interface{}) (Val, error) {
		if n.Leaf {
			s, ok := x.(string)
			if !ok {
				return Val{}, fmt.Errorf("%s: leaf is %T", n.PathKey(), x)
			}
			l, err := DecodeLeaf(s)
			return Val{Leaf: l}, err
		}
		arr, ok := x.([]interface{})
		if !ok || len(arr) != len(n.Children) {
			return Val{}, fmt.Errorf("%s: group shape", n.PathKey())
		}
		out := Val{Group: make([]Val, len(arr))}
		for i, c := range n.Children {
			v, err := node(c, arr[i])
			if err != nil {
				return Val{}, err
			}
			out.Group[i] = v
		}
		return out, nil
	}
	node = func(n *Node, x interface{}) (Val, error) {
		switch n.Rep {
		case Optional:
			if x == nil {
				return Val{Null: true}, nil
			}
			return inner(n, x)
		case Repeated:
			arr, ok := x.([]interface{})
			if !ok && x != nil {
				return Val{}, fmt.Errorf("%s: list shape", n.PathKey())
			}
			out := Val{}
			for _, e := range arr {
				v, err := inner(n, e)
				if err != nil {
					return Val{}, err
				}
				out.List = append(out.List, v)
			}
			return out, nil
		}
		return inner(n, x)
	}
	return inner(root, x)
}

// RecsToJSON encodes a record list.
func RecsToJSON(root *Node, recs []Val) json.RawMessage {
	out := make([]interface{}, len(recs))
	for i, r := range recs {
		out[i] = ValToJSON(root, r)
	}
	b, _ := json.Marshal(out)
	return b
}

// RecsFromJSON decodes a record list.
func RecsFromJSON(root *Node, raw json.RawMessage) ([]Val, error) {
	var arr []interface{}
	if err := json.Unmarshal(raw, &arr); err != nil {
		return nil, err
	}
	out := make([]Val, len(arr))
	for i, x := range arr {
		v, err := ValFromJSON(root, x)
		if err != nil {
			return nil, err
		}
		out[i] = v
	}
	return out, nil
}
