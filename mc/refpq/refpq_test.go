package refpq

import (
	"bytes"
	"os"
	"reflect"
	"testing"

	"github.com/golang/snappy"
)

type link struct {
	Backward []int64 `parquet:"backward"`
	Forward  []int64 `parquet:"forward"`
}
type language struct {
	Code    string  `parquet:"code"`
	Country *string `parquet:"country"`
}
type name struct {
	Languages []language `parquet:"languages"`
	URL       *string    `parquet:"url"`
}
type document struct {
	DocID int64  `parquet:"docid"`
	Links *link  `parquet:"link"`
	Names []name `parquet:"names"`
}

func ps(s string) *string { return &s }

// The Dremel paper's two sample records and their published striping.
func TestDremelPaperExample(t *testing.T) {
	r1 := document{DocID: 10, Links: &link{Forward: []int64{20, 40, 60}},
		Names: []name{
			{Languages: []language{{Code: "en-us", Country: ps("us")}, {Code: "en"}}, URL: ps("http://A")},
			{URL: ps("http://B")},
			{Languages: []language{{Code: "en-gb", Country: ps("gb")}}},
		}}
	r2 := document{DocID: 20, Links: &link{Backward: []int64{10, 30}, Forward: []int64{80}},
		Names: []name{{URL: ps("http://C")}}}
	root := SchemaOf(reflect.TypeOf(document{}))
	recs := []Val{FromGo(root, reflect.ValueOf(r1)), FromGo(root, reflect.ValueOf(r2))}
	cols := Stripe(root, recs)
	type e struct {
		r, d uint8
		v    interface{}
	}
	want := map[string][]e{
		"docid":                   {{0, 0, int64(10)}, {0, 0, int64(20)}},
		"link.backward":           {{0, 1, nil}, {0, 2, int64(10)}, {1, 2, int64(30)}},
		"link.forward":            {{0, 2, int64(20)}, {1, 2, int64(40)}, {1, 2, int64(60)}, {0, 2, int64(80)}},
		"names.languages.code":    {{0, 2, "en-us"}, {2, 2, "en"}, {1, 1, nil}, {1, 2, "en-gb"}, {0, 1, nil}},
		"names.languages.country": {{0, 3, "us"}, {2, 2, nil}, {1, 1, nil}, {1, 3, "gb"}, {0, 1, nil}},
		"names.url":               {{0, 2, "http://A"}, {1, 2, "http://B"}, {1, 1, nil}, {0, 2, "http://C"}},
	}
	for _, c := range cols {
		w, ok := want[c.Leaf.PathKey()]
		if !ok {
			t.Fatalf("unexpected column %s", c.Leaf.PathKey())
		}
		if len(w) != len(c.Entries) {
			t.Fatalf("%s: %d entries, want %d: %+v", c.Leaf.PathKey(), len(c.Entries), len(w), c.Entries)
		}
		for i := range w {
			g := c.Entries[i]
			if g.R != w[i].r || g.D != w[i].d || g.V != w[i].v {
				t.Fatalf("%s entry %d: got %+v want %+v", c.Leaf.PathKey(), i, g, w[i])
			}
		}
	}
	back, err := Assemble(root, cols)
	if err != nil {
		t.Fatal(err)
	}
	for i := range recs {
		if d := EqualVal(root, recs[i], back[i]); d != "" {
			t.Fatalf("assemble record %d: %s", i, d)
		}
	}
	// Go round trip
	var out document
	ToGo(root, back[0], reflect.ValueOf(&out).Elem())
	if !reflect.DeepEqual(out, r1) {
		t.Fatalf("ToGo: %+v", out)
	}
}

func TestHybridPlans(t *testing.T) {
	for w := 1; w <= 3; w++ {
		for n := 0; n <= 9; n++ {
			total := 1
			for i := 0; i < n; i++ {
				total *= 2
			}
			for x := 0; x < total; x++ {
				vals := make([]uint8, n)
				for i := range vals {
					vals[i] = uint8(x>>uint(i)&1) * uint8(1<<uint(w)-1)
				}
				check := func(plan []RunSpec) bool {
					b, err := EncodeHybridPlan(vals, w, plan)
					if err != nil {
						t.Fatalf("plan %v for %v: %v", plan, vals, err)
					}
					got, _, used, bad, err := DecodeHybrid(b, w, n)
					if err != nil || len(bad) > 0 || used != len(b) || !bytes.Equal(got, vals) {
						t.Fatalf("plan %v for %v: got %v bad %v err %v", plan, vals, got, bad, err)
					}
					return true
				}
				check(DefaultPlan(vals))
				if n <= 7 {
					AllPlans(vals, check)
				}
			}
		}
	}
}

func TestThirdPartyFile(t *testing.T) {
	b, err := os.ReadFile("/repo/_examples/via_parquet/people.parquet")
	if err != nil {
		t.Skip(err)
	}
	f, err := ParseFile(b, ParseOptions{})
	if err != nil {
		t.Fatal(err)
	}
	for _, p := range f.Problems {
		// a third-party writer may use features outside the subset (dictionary pages etc.)
		t.Logf("problem: %s", p)
	}
	if f.NumRows == 0 || len(f.RowGroups) == 0 {
		t.Fatalf("no rows parsed")
	}
	t.Logf("rows=%d row groups=%d schema:\n%s", f.NumRows, len(f.RowGroups), f.Schema)
}

func TestSnappyModes(t *testing.T) {
	data := bytes.Repeat([]byte("abcdefgh12345678"), 40)
	data = append(data, []byte("tail-unique-xyz")...)
	for mode := 0; mode <= 6; mode++ {
		enc := SnappyEncode(mode, data)
		dec, err := snappy.Decode(nil, enc)
		if err != nil || !bytes.Equal(dec, data) {
			t.Fatalf("mode %d: %v", mode, err)
		}
	}
	for mode := 0; mode <= 6; mode++ {
		enc := SnappyEncode(mode, nil)
		dec, err := snappy.Decode(nil, enc)
		if err != nil || len(dec) != 0 {
			t.Fatalf("mode %d empty: %v", mode, err)
		}
	}
}

func TestForeignRoundTrip(t *testing.T) {
	root := SchemaOf(reflect.TypeOf(document{}))
	r1 := document{DocID: 10, Links: &link{Forward: []int64{20, 40, 60}},
		Names: []name{{Languages: []language{{Code: "en-us", Country: ps("us")}, {Code: "en"}}, URL: ps("http://A")}, {URL: ps("http://B")}}}
	r2 := document{DocID: 20}
	recs := []Val{FromGo(root, reflect.ValueOf(r1)), FromGo(root, reflect.ValueOf(r2)), FromGo(root, reflect.ValueOf(r1))}
	for codec := 0; codec <= 2; codec++ {
		for sm := 0; sm <= 6; sm++ {
			plan := FilePlan{RowGroups: [][]Val{recs[:2], recs[2:]}, CreatedBy: "t", KeyValue: true, ColumnOrder: true, UTF8: true, UnknownIDs: sm%2 == 0,
				Chunk: func(rg, col int) ChunkPlan {
					cp := ChunkPlan{Codec: codec, SnappyMode: sm, Stats: (col + sm) % 5, CRC: col%2 == 0, EncodingStats: true, KeyValue: true}
					if rg == 0 {
						cp.Splits = []int{1, 1}
					}
					return cp
				}}
			b, err := WriteForeign(root, plan)
			if err != nil {
				t.Fatal(err)
			}
			f, err := ParseFile(b, ParseOptions{})
			if err != nil {
				t.Fatal(err)
			}
			if len(f.Problems) > 0 {
				t.Fatalf("codec %d mode %d: problems %v", codec, sm, f.Problems)
			}
			back, err := Assemble(f.Schema, f.Columns())
			if err != nil {
				t.Fatal(err)
			}
			for i := range recs {
				if d := EqualVal(root, recs[i], back[i]); d != "" {
					t.Fatalf("record %d: %s", i, d)
				}
			}
		}
	}
}
