package refpq

import (
	"bytes"
	"compress/gzip"
	"encoding/binary"
	"fmt"
	"io"
	"math"
	"reflect"

	"github.com/golang/snappy"
)

// Codecs (parquet.thrift enum CompressionCodec).
const (
	CodecNone   = 0
	CodecSnappy = 1
	CodecGzip   = 2
)

// DecodePlain decodes n PLAIN values of the leaf's physical type from b and
// returns them (as the Go kind of the leaf) with the number of bytes used.
func DecodePlain(leaf *Node, b []byte, n int) ([]interface{}, int, error) {
	out := make([]interface{}, 0, n)
	p := 0
	switch leaf.Phys {
	case PBoolean:
		nb := (n + 7) / 8
		if nb > len(b) {
			return nil, 0, fmt.Errorf("plain bool: need %d bytes, have %d", nb, len(b))
		}
		for i := 0; i < n; i++ {
			out = append(out, b[i/8]>>(uint(i)%8)&1 == 1)
		}
		return out, nb, nil
	case PInt32, PFloat:
		if 4*n > len(b) {
			return nil, 0, fmt.Errorf("plain 4-byte: need %d bytes, have %d", 4*n, len(b))
		}
		for i := 0; i < n; i++ {
			u := binary.LittleEndian.Uint32(b[p:])
			p += 4
			switch {
			case leaf.Phys == PFloat:
				out = append(out, math.Float32frombits(u))
			case leaf.Conv == ConvUint32 || leaf.GoKind == reflect.Uint32:
				out = append(out, u)
			default:
				out = append(out, int32(u))
			}
		}
		return out, p, nil
	case PInt64, PDouble:
		if 8*n > len(b) {
			return nil, 0, fmt.Errorf("plain 8-byte: need %d bytes, have %d", 8*n, len(b))
		}
		for i := 0; i < n; i++ {
			u := binary.LittleEndian.Uint64(b[p:])
			p += 8
			switch {
			case leaf.Phys == PDouble:
				out = append(out, math.Float64frombits(u))
			case leaf.Conv == ConvUint64 || leaf.GoKind == reflect.Uint64:
				out = append(out, u)
			default:
				out = append(out, int64(u))
			}
		}
		return out, p, nil
	case PByteArray:
		for i := 0; i < n; i++ {
			if p+4 > len(b) {
				return nil, 0, fmt.Errorf("plain byte_array: value %d: no length", i)
			}
			l := int(binary.LittleEndian.Uint32(b[p:]))
			p += 4
			if l < 0 || p+l > len(b) {
				return nil, 0, fmt.Errorf("plain byte_array: value %d: length %d exceeds page", i, l)
			}
			out = append(out, string(b[p:p+l]))
			p += l
		}
		return out, p, nil
	}
	return nil, 0, fmt.Errorf("plain: unsupported physical type %d", leaf.Phys)
}

// EncodePlain encodes values of a leaf as PLAIN.
func EncodePlain(leaf *Node, vals []interface{}) []byte {
	var out []byte
	switch leaf.Phys {
	case PBoolean:
		out = make([]byte, (len(vals)+7)/8)
		for i, v := range vals {
			if v.(bool) {
				out[i/8] |= 1 << (uint(i) % 8)
			}
		}
		return out
	case PByteArray:
		for _, v := range vals {
			s := v.(string)
			var l [4]byte
			binary.LittleEndian.PutUint32(l[:], uint32(len(s)))
			out = append(out, l[:]...)
			out = append(out, s...)
		}
		return out
	}
	for _, v := range vals {
		var t [8]byte
		switch x := v.(type) {
		case int32:
			binary.LittleEndian.PutUint32(t[:], uint32(x))
			out = append(out, t[:4]...)
		case uint32:
			binary.LittleEndian.PutUint32(t[:], x)
			out = append(out, t[:4]...)
		case float32:
			binary.LittleEndian.PutUint32(t[:], math.Float32bits(x))
			out = append(out, t[:4]...)
		case int64:
			binary.LittleEndian.PutUint64(t[:], uint64(x))
			out = append(out, t[:8]...)
		case uint64:
			binary.LittleEndian.PutUint64(t[:], x)
			out = append(out, t[:8]...)
		case float64:
			binary.LittleEndian.PutUint64(t[:], math.Float64bits(x))
			out = append(out, t[:8]...)
		default:
			panic(fmt.Sprintf("EncodePlain: %T", v))
		}
	}
	return out
}

// Decompress undoes a page codec.
func Decompress(codec int, b []byte) ([]byte, error) {
	switch codec {
	case CodecNone:
		return b, nil
	case CodecSnappy:
		return snappy.Decode(nil, b)
	case CodecGzip:
		zr, err := gzip.NewReader(bytes.NewReader(b))
		if err != nil {
			return nil, err
		}
		out, err := io.ReadAll(zr)
		if err != nil {
			return nil, err
		}
		return out, zr.Close()
	}
	return nil, fmt.Errorf("unsupported codec %d", codec)
}

// Compress applies a page codec (library encoders; trusted base).
func Compress(codec int, b []byte) []byte {
	switch codec {
	case CodecNone:
		return b
	case CodecSnappy:
		return snappy.Encode(nil, b)
	case CodecGzip:
		var buf bytes.Buffer
		zw, _ := gzip.NewWriterLevel(&buf, gzip.BestSpeed)
		zw.Write(b)
		zw.Close()
		return buf.Bytes()
	}
	panic("codec")
}
