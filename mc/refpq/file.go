package refpq

import (
	"bytes"
	"encoding/binary"
	"fmt"
	"reflect"
	"strings"
)

// Problem is one structural-validity complaint about a file.
type Problem struct {
	Code string // stable category, e.g. "schema.num_children", "chunk.total_compressed_size"
	Msg  string
}

func (p Problem) String() string { return p.Code + ": " + p.Msg }

// Stats are the decoded page statistics.
type Stats struct {
	Present                  bool
	Max, Min                 []byte // deprecated fields 1, 2
	HasMax, HasMin           bool
	NullCount, DistinctCount int64
	HasNull, HasDistinct     bool
	MaxValue, MinValue       []byte // fields 5, 6
	HasMaxValue, HasMinValue bool
}

// Page is one parsed page.
type Page struct {
	Offset     int
	HeaderLen  int
	Header     *TS
	Type       int
	Uncomp     int
	Comp       int
	NumValues  int
	Enc        int
	DefEnc     int
	RepEnc     int
	HasDPH     bool
	Stats      Stats
	Body       []byte // as stored
	Data       []byte // decompressed
	Reps, Defs []uint8
	RepRuns    []Run
	DefRuns    []Run
	RepBytes   int
	DefBytes   int
	Values     []interface{}
	ValueBytes int
	Records    int
	Decoded    bool
}

// Chunk is one column chunk.
type Chunk struct {
	TS        *TS
	Meta      *TS
	Leaf      *Node
	Pages     []*Page
	Start     int
	End       int
	Codec     int
	NumValues int64
}

// Entries concatenates the pages of the chunk into column entries.
func (c *Chunk) Entries() []Entry {
	var out []Entry
	for _, p := range c.Pages {
		vi := 0
		if !p.Decoded {
			continue
		}
		for i := 0; i < p.NumValues; i++ {
			var e Entry
			if len(p.Reps) > i {
				e.R = p.Reps[i]
			}
			d := uint8(c.Leaf.DefLevel)
			if c.Leaf.DefLevel > 0 {
				if i >= len(p.Defs) {
					break
				}
				d = p.Defs[i]
			}
			e.D = d
			if int(d) == c.Leaf.DefLevel {
				if vi < len(p.Values) {
					e.V = p.Values[vi]
				}
				vi++
			}
			out = append(out, e)
		}
	}
	return out
}

// RowGroup is one parsed row group.
type RowGroup struct {
	TS      *TS
	Chunks  []*Chunk
	NumRows int64
}

// File is a parsed Parquet file.
type File struct {
	Len         int
	Footer      *TS
	FooterStart int
	FooterLen   int
	Schema      *Node
	RowGroups   []*RowGroup
	NumRows     int64
	SeqPages    []int // page offsets found by the sequential walk from byte 4
	Problems    []Problem
}

func (f *File) bad(code, format string, a ...interface{}) {
	f.Problems = append(f.Problems, Problem{code, fmt.Sprintf(format, a...)})
}

// ParseOptions tune the parser.
type ParseOptions struct {
	// MaxPageRecords, if > 0, is the configured page size: every page must
	// hold at most that many records.
	MaxPageRecords int
	// AllowEmptyRowGroups accepts row groups with num_rows 0 (legal in the
	// format and emitted by some writers; this library's writer must not
	// produce them, so the default treats them as a problem).
	AllowEmptyRowGroups bool
}

// SchemaFromElements rebuilds the schema tree from the footer's flat list.
func SchemaFromElements(elems []TVal, bad func(code, format string, a ...interface{})) (*Node, error) {
	if len(elems) == 0 {
		return nil, fmt.Errorf("schema: empty")
	}
	pos := 0
	var rec func(depth int) (*Node, error)
	rec = func(depth int) (*Node, error) {
		if pos >= len(elems) {
			return nil, fmt.Errorf("schema: num_children overruns the element list")
		}
		if depth > 32 {
			return nil, fmt.Errorf("schema: too deep")
		}
		e := elems[pos].S
		mypos := pos
		pos++
		if e == nil {
			return nil, fmt.Errorf("schema: element %d is not a struct", mypos)
		}
		n := &Node{Conv: ConvNone}
		name, ok := e.Bin(4)
		if !ok {
			bad("schema.name", "element %d has no name", mypos)
		}
		n.Name = string(name)
		rep, hasRep := e.I(3)
		n.Rep = int(rep)
		if !hasRep && mypos != 0 {
			bad("schema.repetition", "element %d (%s) has no repetition_type", mypos, n.Name)
		}
		if hasRep && (rep < 0 || rep > 2) {
			bad("schema.repetition", "element %d (%s) has repetition_type %d", mypos, n.Name, rep)
		}
		typ, hasType := e.I(1)
		nc, hasNC := e.I(5)
		if cv, ok := e.I(6); ok {
			n.Conv = int(cv)
		}
		if hasType && hasNC && nc > 0 {
			bad("schema.group_type", "element %d (%s) has both a type and %d children", mypos, n.Name, nc)
		}
		if hasNC && nc < 0 {
			return nil, fmt.Errorf("schema: element %d has negative num_children", mypos)
		}
		if hasType {
			n.Leaf = true
			n.Phys = int(typ)
			switch {
			case n.Phys == PInt32 && n.Conv == ConvUint32:
				n.GoKind = reflect.Uint32
			case n.Phys == PInt64 && n.Conv == ConvUint64:
				n.GoKind = reflect.Uint64
			case n.Phys == PInt32:
				n.GoKind = reflect.Int32
			case n.Phys == PInt64:
				n.GoKind = reflect.Int64
			case n.Phys == PFloat:
				n.GoKind = reflect.Float32
			case n.Phys == PDouble:
				n.GoKind = reflect.Float64
			case n.Phys == PBoolean:
				n.GoKind = reflect.Bool
			case n.Phys == PByteArray:
				n.GoKind = reflect.String
			}
			if hasNC && nc > 0 {
				// consume them anyway so the walk stays aligned
			} else {
				return n, nil
			}
		}
		if !hasType && (!hasNC || nc == 0) {
			bad("schema.empty_group", "element %d (%s) is a group without children", mypos, n.Name)
		}
		for i := int64(0); i < nc; i++ {
			c, err := rec(depth + 1)
			if err != nil {
				return nil, err
			}
			n.Children = append(n.Children, c)
		}
		return n, nil
	}
	root, err := rec(0)
	if err != nil {
		return nil, err
	}
	if pos != len(elems) {
		bad("schema.num_children", "schema tree consumes %d of %d elements (num_children do not add up)", pos, len(elems))
	}
	if root.Leaf {
		bad("schema.root", "root element has a type")
		root.Leaf = false
	}
	root.Rep = Required
	return root.Finish(), nil
}

// ParsePageHeader decodes a page header at b[off:].
func ParsePageHeader(b []byte, off int) (*Page, error) {
	if off < 0 || off >= len(b) {
		return nil, fmt.Errorf("page header offset %d outside file", off)
	}
	ts, n, err := DecodeStruct(b[off:])
	if err != nil {
		return nil, fmt.Errorf("page header at %d: %v", off, err)
	}
	p := &Page{Offset: off, HeaderLen: n, Header: ts, Type: -1, Enc: -1, DefEnc: -1, RepEnc: -1}
	t, ok1 := ts.I(1)
	u, ok2 := ts.I(2)
	c, ok3 := ts.I(3)
	if !ok1 || !ok2 || !ok3 {
		return nil, fmt.Errorf("page header at %d lacks required fields", off)
	}
	p.Type, p.Uncomp, p.Comp = int(t), int(u), int(c)
	if p.Comp < 0 || p.Uncomp < 0 {
		return nil, fmt.Errorf("page header at %d has negative sizes", off)
	}
	if dph, ok := ts.Struct(5); ok {
		p.HasDPH = true
		nv, _ := dph.I(1)
		e, _ := dph.I(2)
		de, _ := dph.I(3)
		re, _ := dph.I(4)
		p.NumValues, p.Enc, p.DefEnc, p.RepEnc = int(nv), int(e), int(de), int(re)
		if st, ok := dph.Struct(5); ok {
			p.Stats = parseStats(st)
		}
	}
	return p, nil
}

func parseStats(st *TS) Stats {
	s := Stats{Present: true}
	s.Max, s.HasMax = st.Bin(1)
	s.Min, s.HasMin = st.Bin(2)
	s.NullCount, s.HasNull = st.I(3)
	s.DistinctCount, s.HasDistinct = st.I(4)
	s.MaxValue, s.HasMaxValue = st.Bin(5)
	s.MinValue, s.HasMinValue = st.Bin(6)
	return s
}

// DecodePage decompresses and decodes a v1 data page for the leaf.
func DecodePage(p *Page, leaf *Node, codec int) error {
	data, err := Decompress(codec, p.Body)
	if err != nil {
		return fmt.Errorf("page at %d: decompress: %v", p.Offset, err)
	}
	p.Data = data
	pos := 0
	n := p.NumValues
	if leaf.RepLevel > 0 {
		vals, runs, used, bad, err := DecodeHybrid(data[pos:], BitWidth(leaf.RepLevel), n)
		if err != nil {
			return fmt.Errorf("page at %d: repetition levels: %v", p.Offset, err)
		}
		if len(bad) > 0 {
			return fmt.Errorf("page at %d: repetition levels ill-formed: %s", p.Offset, strings.Join(bad, "; "))
		}
		p.Reps, p.RepRuns, p.RepBytes = vals, runs, used
		pos += used
	}
	nonNull := n
	if leaf.DefLevel > 0 {
		vals, runs, used, bad, err := DecodeHybrid(data[pos:], BitWidth(leaf.DefLevel), n)
		if err != nil {
			return fmt.Errorf("page at %d: definition levels: %v", p.Offset, err)
		}
		if len(bad) > 0 {
			return fmt.Errorf("page at %d: definition levels ill-formed: %s", p.Offset, strings.Join(bad, "; "))
		}
		p.Defs, p.DefRuns, p.DefBytes = vals, runs, used
		pos += used
		nonNull = 0
		for _, d := range vals {
			if int(d) == leaf.DefLevel {
				nonNull++
			}
		}
	}
	vals, used, err := DecodePlain(leaf, data[pos:], nonNull)
	if err != nil {
		return fmt.Errorf("page at %d: values: %v", p.Offset, err)
	}
	p.Values, p.ValueBytes = vals, used
	if pos+used != len(data) {
		return fmt.Errorf("page at %d: %d trailing bytes after %d values (sections do not add up to the page size %d)", p.Offset, len(data)-pos-used, nonNull, len(data))
	}
	if leaf.RepLevel > 0 {
		for _, r := range p.Reps {
			if r == 0 {
				p.Records++
			}
		}
	} else {
		p.Records = n
	}
	p.Decoded = true
	return nil
}

var magic = []byte("PAR1")

// ParseFile parses and validates a complete file.  A returned error means
// the file could not be walked at all; everything else is in File.Problems.
func ParseFile(b []byte, opt ParseOptions) (*File, error) {
	f := &File{Len: len(b)}
	if len(b) < 12 {
		return nil, fmt.Errorf("file too short (%d bytes)", len(b))
	}
	if !bytes.Equal(b[:4], magic) {
		return nil, fmt.Errorf("missing leading magic")
	}
	if !bytes.Equal(b[len(b)-4:], magic) {
		return nil, fmt.Errorf("missing trailing magic")
	}
	flen := int(binary.LittleEndian.Uint32(b[len(b)-8:]))
	if flen <= 0 || flen > len(b)-12 {
		return nil, fmt.Errorf("footer length %d does not fit a %d-byte file", flen, len(b))
	}
	f.FooterLen = flen
	f.FooterStart = len(b) - 8 - flen
	ft, used, err := DecodeStruct(b[f.FooterStart : len(b)-8])
	if err != nil {
		return nil, fmt.Errorf("footer: %v", err)
	}
	if used != flen {
		f.bad("footer.length", "footer thrift consumes %d bytes, length field says %d", used, flen)
	}
	f.Footer = ft
	if v, ok := ft.I(1); !ok || v < 1 {
		f.bad("footer.version", "version missing or < 1 (%d)", v)
	}
	elems, ok := ft.List(2)
	if !ok {
		return nil, fmt.Errorf("footer: no schema")
	}
	f.Schema, err = SchemaFromElements(elems, f.bad)
	if err != nil {
		return nil, err
	}
	leaves := f.Schema.Leaves()
	nr, ok := ft.I(3)
	if !ok {
		f.bad("footer.num_rows", "num_rows missing")
	}
	f.NumRows = nr
	rgs, ok := ft.List(4)
	if !ok {
		f.bad("footer.row_groups", "row_groups missing")
	}
	pos := 4
	var sumRows int64
	footerPages := map[int]bool{}
	for gi, rv := range rgs {
		rg := &RowGroup{TS: rv.S}
		f.RowGroups = append(f.RowGroups, rg)
		if rv.S == nil {
			return nil, fmt.Errorf("row group %d is not a struct", gi)
		}
		rows, ok := rv.S.I(3)
		if !ok {
			f.bad("rg.num_rows", "row group %d: num_rows missing", gi)
		}
		rg.NumRows = rows
		sumRows += rows
		cols, _ := rv.S.List(1)
		if len(cols) != len(leaves) {
			f.bad("rg.columns", "row group %d has %d column chunks for %d schema leaves", gi, len(cols), len(leaves))
		}
		var sumUncomp, sumComp int64
		for ci, cv := range cols {
			if cv.S == nil {
				return nil, fmt.Errorf("row group %d column %d is not a struct", gi, ci)
			}
			ch := &Chunk{TS: cv.S}
			rg.Chunks = append(rg.Chunks, ch)
			md, ok := cv.S.Struct(3)
			if !ok {
				return nil, fmt.Errorf("row group %d column %d has no meta_data", gi, ci)
			}
			ch.Meta = md
			if ci >= len(leaves) {
				continue
			}
			leaf := leaves[ci]
			ch.Leaf = leaf
			where := fmt.Sprintf("row group %d column %d (%s)", gi, ci, leaf.PathKey())
			if t, _ := md.I(1); int(t) != leaf.Phys {
				f.bad("chunk.type", "%s: type %d, schema says %d", where, t, leaf.Phys)
			}
			pl, _ := md.List(3)
			var path []string
			for _, x := range pl {
				path = append(path, string(x.B))
			}
			if strings.Join(path, "\x00") != strings.Join(leaf.Path, "\x00") {
				f.bad("chunk.path", "%s: path_in_schema %v, schema leaf %v", where, path, leaf.Path)
			}
			encs, _ := md.List(2)
			hasPlain := false
			for _, e := range encs {
				if e.I == 0 {
					hasPlain = true
				}
			}
			if !hasPlain {
				f.bad("chunk.encodings", "%s: encodings lacks PLAIN", where)
			}
			codec, _ := md.I(4)
			ch.Codec = int(codec)
			nv, _ := md.I(5)
			ch.NumValues = nv
			tu, _ := md.I(6)
			tc, _ := md.I(7)
			dpo, hasDPO := md.I(9)
			if !hasDPO {
				f.bad("chunk.data_page_offset", "%s: data_page_offset missing", where)
			}
			sumUncomp += tu
			sumComp += tc
			if fo, _ := cv.S.I(2); fo != 0 && fo != dpo {
				// file_offset: lenient (0 or the chunk start)
				f.bad("chunk.file_offset", "%s: file_offset %d is neither 0 nor the chunk start %d", where, fo, dpo)
			}
			if int(dpo) != pos {
				f.bad("chunk.data_page_offset", "%s: data_page_offset %d but the previous chunk ended at %d (chunks must be contiguous from byte 4)", where, dpo, pos)
			}
			// follow the footer's offset
			off := int(dpo)
			ch.Start = off
			var vals int64
			var sumC, sumU int64
			for vals < nv {
				if off >= f.FooterStart {
					f.bad("chunk.pages", "%s: pages run into the footer at %d with %d of %d values read", where, off, vals, nv)
					break
				}
				pg, err := ParsePageHeader(b, off)
				if err != nil {
					f.bad("chunk.pages", "%s: %v", where, err)
					break
				}
				if off+pg.HeaderLen+pg.Comp > f.FooterStart {
					f.bad("chunk.pages", "%s: page at %d overruns the data region", where, off)
					break
				}
				pg.Body = b[off+pg.HeaderLen : off+pg.HeaderLen+pg.Comp]
				footerPages[off] = true
				ch.Pages = append(ch.Pages, pg)
				sumC += int64(pg.HeaderLen + pg.Comp)
				sumU += int64(pg.HeaderLen + pg.Uncomp)
				off += pg.HeaderLen + pg.Comp
				if pg.Type != 0 || !pg.HasDPH {
					f.bad("page.type", "%s: page at %d has type %d (data_page_header present: %v)", where, pg.Offset, pg.Type, pg.HasDPH)
					break
				}
				if pg.Enc != 0 {
					f.bad("page.encoding", "%s: page at %d has value encoding %d", where, pg.Offset, pg.Enc)
				}
				if leaf.DefLevel > 0 && pg.DefEnc != 3 {
					f.bad("page.encoding", "%s: page at %d has definition level encoding %d", where, pg.Offset, pg.DefEnc)
				}
				if leaf.RepLevel > 0 && pg.RepEnc != 3 {
					f.bad("page.encoding", "%s: page at %d has repetition level encoding %d", where, pg.Offset, pg.RepEnc)
				}
				if pg.NumValues <= 0 {
					f.bad("page.num_values", "%s: page at %d has num_values %d", where, pg.Offset, pg.NumValues)
					break
				}
				vals += int64(pg.NumValues)
				if err := DecodePage(pg, leaf, ch.Codec); err != nil {
					f.bad("page.decode", "%s: %v", where, err)
					continue
				}
				if len(pg.Data) != pg.Uncomp {
					f.bad("page.uncompressed_size", "%s: page at %d decompresses to %d bytes, header says %d", where, pg.Offset, len(pg.Data), pg.Uncomp)
				}
				if len(pg.Reps) > 0 && pg.Reps[0] != 0 {
					f.bad("page.record_boundary", "%s: page at %d does not start at a record boundary (r=%d)", where, pg.Offset, pg.Reps[0])
				}
				if opt.MaxPageRecords > 0 && pg.Records > opt.MaxPageRecords {
					f.bad("page.max_records", "%s: page at %d holds %d records, page size is %d", where, pg.Offset, pg.Records, opt.MaxPageRecords)
				}
			}
			ch.End = off
			pos = off
			if vals != nv {
				f.bad("chunk.num_values", "%s: num_values %d but pages hold %d", where, nv, vals)
			}
			if sumC != tc {
				f.bad("chunk.total_compressed_size", "%s: total_compressed_size %d but pages (headers + bodies) take %d", where, tc, sumC)
			}
			if sumU != tu {
				f.bad("chunk.total_uncompressed_size", "%s: total_uncompressed_size %d but pages (headers + uncompressed bodies) take %d", where, tu, sumU)
			}
			var recs int
			for _, pg := range ch.Pages {
				recs += pg.Records
			}
			if int64(recs) != rows {
				f.bad("rg.num_rows", "%s: holds %d records, row group num_rows is %d", where, recs, rows)
			}
		}
		// The IDL defines total_byte_size over the uncompressed column data;
		// writers in the wild (and this library) record the compressed sum.
		// Either is accepted; anything else is a wrong size.
		if tb, _ := rv.S.I(2); tb != sumUncomp && tb != sumComp {
			f.bad("rg.total_byte_size", "row group %d: total_byte_size %d is neither the sum of total_uncompressed_size (%d) nor of total_compressed_size (%d)", gi, tb, sumUncomp, sumComp)
		}
		if rows < 0 || (rows == 0 && !opt.AllowEmptyRowGroups) {
			f.bad("rg.empty", "row group %d has num_rows %d", gi, rows)
		}
	}
	if pos != f.FooterStart {
		f.bad("file.data_region", "column chunks end at %d but the footer starts at %d (unaccounted bytes)", pos, f.FooterStart)
	}
	if sumRows != nr {
		f.bad("footer.num_rows", "file num_rows %d, sum over row groups %d", nr, sumRows)
	}
	// independent sequential walk
	off := 4
	for off < f.FooterStart {
		pg, err := ParsePageHeader(b, off)
		if err != nil {
			f.bad("file.sequential_walk", "sequential walk failed at %d: %v", off, err)
			break
		}
		f.SeqPages = append(f.SeqPages, off)
		off += pg.HeaderLen + pg.Comp
	}
	if off > f.FooterStart {
		f.bad("file.sequential_walk", "sequential walk overshoots the footer (%d > %d)", off, f.FooterStart)
	}
	for _, o := range f.SeqPages {
		if !footerPages[o] {
			f.bad("file.unaccounted_page", "page at %d is in the file but not reachable from the footer", o)
		}
	}
	if len(f.SeqPages) != len(footerPages) {
		f.bad("file.page_count", "sequential walk finds %d pages, the footer accounts for %d", len(f.SeqPages), len(footerPages))
	}
	return f, nil
}

// Columns gathers, per leaf, the entries of all row groups in order.
func (f *File) Columns() []*Column {
	leaves := f.Schema.Leaves()
	cols := make([]*Column, len(leaves))
	for i, l := range leaves {
		cols[i] = &Column{Leaf: l}
	}
	for _, rg := range f.RowGroups {
		for i, ch := range rg.Chunks {
			if i < len(cols) && ch.Leaf != nil {
				cols[i].Entries = append(cols[i].Entries, ch.Entries()...)
			}
		}
	}
	return cols
}

// RowGroupColumns returns the columns of a single row group.
func (f *File) RowGroupColumns(gi int) []*Column {
	leaves := f.Schema.Leaves()
	cols := make([]*Column, len(leaves))
	for i, l := range leaves {
		cols[i] = &Column{Leaf: l}
	}
	for i, ch := range f.RowGroups[gi].Chunks {
		if i < len(cols) && ch.Leaf != nil {
			cols[i].Entries = ch.Entries()
		}
	}
	return cols
}

// SameSchema compares the structure of two schema trees (names, repetition,
// physical and converted types; UTF8 on byte arrays is tolerated).
func SameSchema(a, b *Node) string {
	var rec func(x, y *Node, root bool) string
	rec = func(x, y *Node, root bool) string {
		if !root {
			if x.Name != y.Name {
				return fmt.Sprintf("name %q vs %q (under %v)", x.Name, y.Name, x.Path)
			}
			if x.Rep != y.Rep {
				return fmt.Sprintf("%s: repetition %d vs %d", x.PathKey(), x.Rep, y.Rep)
			}
		}
		if x.Leaf != y.Leaf {
			return fmt.Sprintf("%s: leaf %v vs %v", x.PathKey(), x.Leaf, y.Leaf)
		}
		if x.Leaf {
			if x.Phys != y.Phys {
				return fmt.Sprintf("%s: physical type %d vs %d", x.PathKey(), x.Phys, y.Phys)
			}
			cx, cy := x.Conv, y.Conv
			if x.Phys == PByteArray {
				if cx == ConvUTF8 {
					cx = ConvNone
				}
				if cy == ConvUTF8 {
					cy = ConvNone
				}
			}
			if cx != cy {
				return fmt.Sprintf("%s: converted type %d vs %d", x.PathKey(), cx, cy)
			}
			return ""
		}
		if len(x.Children) != len(y.Children) {
			return fmt.Sprintf("%s: %d children vs %d", x.PathKey(), len(x.Children), len(y.Children))
		}
		for i := range x.Children {
			if d := rec(x.Children[i], y.Children[i], false); d != "" {
				return d
			}
		}
		return ""
	}
	return rec(a, b, true)
}
