// Package prog enumerates struct definitions (programs for parquetgen) of a
// bounded grammar and runs the generate -> compile -> execute pipeline on
// batches of them.
package prog

import (
	"fmt"
	"strings"
)

// Field is a leaf or a group.
type Field struct {
	Rep      int // 0 required, 1 optional, 2 repeated
	Leaf     bool
	Type     string   // leaf Go type (default int32)
	Children []*Field // group
}

// Shape is a root struct.
type Shape struct {
	Fields []*Field
	// Share declares one Go struct type for all groups with the same
	// children (the same type used by several fields) instead of one type
	// per group.  Signature prefix "~".
	Share bool
	// Decl selects how leaf fields are declared: "" one name per declaration,
	// "u" grouped with an unexported name first ("u0, F0 int32"), "g" grouped
	// with the unexported name last ("F0, u0 int32"), "n" ordinary declarations
	// followed by other code (see Source).  Signature prefix "^u" /
	// "^g".  The unexported names are not columns.
	Decl string
	// External: the struct types live in a package of their own and the code
	// is generated with parquetgen -import.  Signature prefix "@".
	External bool
}

// Sig renders the signature: leaves r/o/p, groups R(...)/O(...)/P(...).
func (s *Shape) Sig() string {
	var sb strings.Builder
	if s.External {
		sb.WriteByte('@')
	}
	if s.Decl != "" {
		sb.WriteString("^" + s.Decl)
	}
	if s.Share {
		sb.WriteByte('~')
	}
	for _, f := range s.Fields {
		f.sig(&sb)
	}
	return sb.String()
}

func (f *Field) sig(sb *strings.Builder) {
	if f.Leaf {
		sb.WriteByte("rop"[f.Rep])
		if f.Type != "" && f.Type != "int32" {
			sb.WriteString("<" + f.Type + ">")
		}
		return
	}
	sb.WriteByte("ROP"[f.Rep])
	sb.WriteByte('(')
	for _, c := range f.Children {
		c.sig(sb)
	}
	sb.WriteByte(')')
}

// ParseSig parses a signature back into a shape.
func ParseSig(sig string) (*Shape, error) {
	if strings.HasPrefix(sig, "@") {
		s, err := ParseSig(sig[1:])
		if err == nil {
			s.External = true
		}
		return s, err
	}
	if strings.HasPrefix(sig, "^u") || strings.HasPrefix(sig, "^g") || strings.HasPrefix(sig, "^n") {
		s, err := ParseSig(sig[2:])
		if err == nil {
			s.Decl = sig[1:2]
		}
		return s, err
	}
	if strings.HasPrefix(sig, "~") {
		s, err := ParseSig(sig[1:])
		if err == nil {
			s.Share = true
		}
		return s, err
	}
	pos := 0
	var parseFields func(depth int) ([]*Field, error)
	parseFields = func(depth int) ([]*Field, error) {
		var out []*Field
		for pos < len(sig) {
			ch := sig[pos]
			switch ch {
			case 'r', 'o', 'p':
				pos++
				f := &Field{Rep: strings.IndexByte("rop", ch), Leaf: true, Type: "int32"}
				if pos < len(sig) && sig[pos] == '<' {
					end := strings.IndexByte(sig[pos:], '>')
					if end < 0 {
						return nil, fmt.Errorf("bad type at %d", pos)
					}
					f.Type = sig[pos+1 : pos+end]
					pos += end + 1
				}
				out = append(out, f)
			case 'R', 'O', 'P':
				pos++
				if pos >= len(sig) || sig[pos] != '(' {
					return nil, fmt.Errorf("expected ( at %d", pos)
				}
				pos++
				ch2, err := parseFields(depth + 1)
				if err != nil {
					return nil, err
				}
				if pos >= len(sig) || sig[pos] != ')' {
					return nil, fmt.Errorf("expected ) at %d", pos)
				}
				pos++
				out = append(out, &Field{Rep: strings.IndexByte("ROP", ch), Children: ch2})
			case ')':
				return out, nil
			default:
				return nil, fmt.Errorf("bad char %q at %d", ch, pos)
			}
		}
		return out, nil
	}
	fs, err := parseFields(0)
	if err != nil {
		return nil, err
	}
	if pos != len(sig) || len(fs) == 0 {
		return nil, fmt.Errorf("bad signature %q", sig)
	}
	return &Shape{Fields: fs}, nil
}

// Leaves counts leaves.
func (s *Shape) Leaves() int {
	n := 0
	var rec func(fs []*Field)
	rec = func(fs []*Field) {
		for _, f := range fs {
			if f.Leaf {
				n++
			} else {
				rec(f.Children)
			}
		}
	}
	rec(s.Fields)
	return n
}

// Source renders the Go type declarations.  Root type is "T"; nested struct
// types are T1, T2, ... in pre-order; field names are F0, F1, ... per struct
// (exported, untagged, so column names equal field names).
func (s *Shape) Source(pkg string) string {
	var decls []string
	n := 0
	shared := map[string]string{} // children signature -> type name (Share)
	var rec func(name string, fs []*Field)
	rec = func(name string, fs []*Field) {
		var sb strings.Builder
		fmt.Fprintf(&sb, "type %s struct {\n", name)
		type pending struct {
			name string
			fs   []*Field
		}
		var later []pending
		for i, f := range fs {
			prefix := []string{"", "*", "[]"}[f.Rep]
			if f.Leaf {
				t := f.Type
				if t == "" {
					t = "int32"
				}
				switch s.Decl {
				case "u":
					fmt.Fprintf(&sb, "\tu%d, F%d %s%s\n", i, i, prefix, t)
				case "g":
					fmt.Fprintf(&sb, "\tF%d, u%d %s%s\n", i, i, prefix, t)
				default:
					fmt.Fprintf(&sb, "\tF%d %s%s\n", i, prefix, t)
				}
			} else {
				if s.Share {
					if tn, ok := shared[childSig(f)]; ok {
						fmt.Fprintf(&sb, "\tF%d %s%s\n", i, prefix, tn)
						continue
					}
				}
				n++
				tn := fmt.Sprintf("T%d", n)
				shared[childSig(f)] = tn
				fmt.Fprintf(&sb, "\tF%d %s%s\n", i, prefix, tn)
				later = append(later, pending{tn, f.Children})
			}
		}
		sb.WriteString("}\n")
		decls = append(decls, sb.String())
		for _, p := range later {
			rec(p.name, p.fs)
		}
	}
	rec("T", s.Fields)
	if s.Decl == "n" {
		// the input file holds more than the struct: constants, variables, an
		// interface, an unrelated struct, a method and a function whose bodies
		// declare LOCAL types with the names of the package-level ones
		decls = append(decls, `const noiseConst = 3

var noiseVar = []string{"a"}

type noiseIface interface{ M() int }

type Unrelated struct {
	X map[string]int
	Y int32
}

func (t T) M() int {
	type T struct{ Z string }
	var x T
	_ = x
	return noiseConst
}

func noiseFunc() noiseIface {
	type T1 struct{ Q bool }
	type T2 struct{}
	_, _ = T1{}, T2{}
	_ = noiseVar
	return T{}
}
`)
	}
	return "package " + pkg + "\n\n" + strings.Join(decls, "\n")
}

func childSig(f *Field) string {
	var sb strings.Builder
	for _, c := range f.Children {
		c.sig(&sb)
	}
	return sb.String()
}

// Sharable reports whether two groups of the shape have the same children,
// i.e. whether Share changes the declarations.
func (s *Shape) Sharable() bool {
	seen := map[string]bool{}
	dup := false
	var rec func(fs []*Field)
	rec = func(fs []*Field) {
		for _, f := range fs {
			if f.Leaf {
				continue
			}
			k := childSig(f)
			if seen[k] {
				dup = true
			}
			seen[k] = true
			rec(f.Children)
		}
	}
	rec(s.Fields)
	return dup
}

// Enumerate lists every shape with nesting depth <= maxDepth (depth 0 = flat),
// at most maxLeaves leaves and at most maxFields fields per struct; groups are
// non-empty.
func Enumerate(maxDepth, maxLeaves, maxFields int) []*Shape {
	type fl struct {
		fields []*Field
		leaves int
	}
	var seqs func(depth, leaves int) []fl
	var fieldsOf func(depth, leaves int) []struct {
		f      *Field
		leaves int
	}
	fieldsOf = func(depth, leaves int) []struct {
		f      *Field
		leaves int
	} {
		var out []struct {
			f      *Field
			leaves int
		}
		if leaves >= 1 {
			for rep := 0; rep < 3; rep++ {
				out = append(out, struct {
					f      *Field
					leaves int
				}{&Field{Rep: rep, Leaf: true, Type: "int32"}, 1})
			}
		}
		if depth > 0 {
			for _, inner := range seqs(depth-1, leaves) {
				for rep := 0; rep < 3; rep++ {
					out = append(out, struct {
						f      *Field
						leaves int
					}{&Field{Rep: rep, Children: inner.fields}, inner.leaves})
				}
			}
		}
		return out
	}
	// non-empty sequences of fields with total leaves <= leaves
	seqs = func(depth, leaves int) []fl {
		var out []fl
		var rec func(cur []*Field, used int)
		rec = func(cur []*Field, used int) {
			if len(cur) > 0 {
				out = append(out, fl{append([]*Field(nil), cur...), used})
			}
			if len(cur) == maxFields {
				return
			}
			for _, x := range fieldsOf(depth, leaves-used) {
				rec(append(cur, x.f), used+x.leaves)
			}
		}
		rec(nil, 0)
		return out
	}
	var shapes []*Shape
	for _, s := range seqs(maxDepth, maxLeaves) {
		shapes = append(shapes, &Shape{Fields: s.fields})
	}
	return shapes
}
