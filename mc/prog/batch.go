package prog

import (
	"bufio"
	"bytes"
	"context"
	"encoding/json"
	"fmt"
	"os"
	"os/exec"
	"path/filepath"
	"regexp"
	"strings"
	"time"

	"verif/mc/sut"
)

// Program is one input to parquetgen.
type Program struct {
	Name   string // package directory / package name (unique within the batch)
	Target string // sut target name registered by the glue (e.g. the shape signature)
	Type   string // root struct type
	Source string // complete Go source of the type declarations (with package clause)
	// Parquet, when set, makes the pipeline run `parquetgen -parquet <file>`
	// instead of `-input` (C15); Source is then ignored.
	Parquet string
	// ExternalType puts the struct definitions into a package of their own
	// (<dir>/types) and runs parquetgen with -import, the documented way of
	// generating code for a type that lives elsewhere.
	ExternalType bool
}

// Failure is one oracle failure reported by the runner.
type Failure struct {
	Class string          `json:"class"`
	Code  string          `json:"code"`
	Msg   string          `json:"msg"`
	Case  json.RawMessage `json:"case,omitempty"`
}

// Result is the verdict for one program.
type Result struct {
	Name        string          `json:"name"`
	Target      string          `json:"target"`
	GenFail     string          `json:"gen_fail,omitempty"`
	NonDet      bool            `json:"nondeterministic,omitempty"`
	CompileFail string          `json:"compile_fail,omitempty"`
	Ran         bool            `json:"ran"`
	Crash       string          `json:"crash,omitempty"` // runner died / hung while on this target
	Evals       int             `json:"evals"`
	Failures    []Failure       `json:"failures,omitempty"`
	Extra       json.RawMessage `json:"extra,omitempty"`
}

// BatchConfig tells RunBatch where and how to build.
type BatchConfig struct {
	MCDir      string // module root (/verif/mc)
	RelDir     string // batch directory relative to MCDir (e.g. work/c05/quick/b003)
	Parquetgen string
	RunnerPkg  string            // import path of the package whose Main() the batch binary calls
	Env        []string          // extra env for the runner
	GoCache    string            // "" = default
	BuildP     int               // go build -p
	Timeout    time.Duration     // per runner invocation
	Keep       bool              // keep the batch directory (debugging)
	ExtraFiles map[string]string // program name -> extra Go source placed next to it (C14/C15 support code)
}

// TrimCache removes a worker-private scratch build cache once it has grown
// past limit bytes (the generated packages are never needed again; only the
// dependencies are rebuilt, once, after a trim).
func TrimCache(dir string, limit int64) {
	if dir == "" {
		return
	}
	var total int64
	filepath.Walk(dir, func(_ string, info os.FileInfo, err error) error {
		if err == nil && !info.IsDir() {
			total += info.Size()
		}
		if total > limit {
			return filepath.SkipAll
		}
		return nil
	})
	if total > limit {
		exec.Command("chmod", "-R", "u+w", dir).Run()
		os.RemoveAll(dir)
	}
}

var pkgHeader = regexp.MustCompile(`(?m)^# (\S+)`)

func goEnv(cfg BatchConfig) []string {
	env := os.Environ()
	if cfg.GoCache != "" {
		env = append(env, "GOCACHE="+cfg.GoCache)
	}
	return env
}

// RunBatch runs generate -> compile -> execute for a batch of programs.
func RunBatch(cfg BatchConfig, progs []Program) ([]Result, error) {
	dir := filepath.Join(cfg.MCDir, cfg.RelDir)
	os.RemoveAll(dir)
	if err := os.MkdirAll(dir, 0o755); err != nil {
		return nil, err
	}
	if !cfg.Keep {
		defer os.RemoveAll(dir)
	}
	importBase := "verif/mc/" + filepath.ToSlash(cfg.RelDir)
	res := make([]Result, len(progs))
	idx := map[string]int{}
	for i, p := range progs {
		res[i] = Result{Name: p.Name, Target: p.Target}
		idx[p.Name] = i
		pd := filepath.Join(dir, p.Name)
		os.MkdirAll(pd, 0o755)
		var args1, args2 []string
		if p.Parquet != "" {
			args1 = []string{"-parquet", p.Parquet, "-type", p.Type, "-package", p.Name, "-output", "parquet.go", "-struct-output", "types.go"}
			args2 = []string{"-parquet", p.Parquet, "-type", p.Type, "-package", p.Name, "-output", "parquet2.go", "-struct-output", "types2.go"}
		} else {
			if p.ExternalType {
				os.MkdirAll(filepath.Join(pd, "types"), 0o755)
				src := strings.Replace(p.Source, "package "+p.Name+"\n", "package types\n", 1)
				if err := os.WriteFile(filepath.Join(pd, "types", "types.go"), []byte(src), 0o644); err != nil {
					return nil, err
				}
				imp := importBase + "/" + p.Name + "/types"
				args1 = []string{"-input", "types/types.go", "-type", p.Type, "-package", p.Name, "-output", "parquet.go", "-import", imp}
				args2 = []string{"-input", "types/types.go", "-type", p.Type, "-package", p.Name, "-output", "parquet2.go", "-import", imp}
			} else {
				if err := os.WriteFile(filepath.Join(pd, "types.go"), []byte(p.Source), 0o644); err != nil {
					return nil, err
				}
				args1 = []string{"-input", "types.go", "-type", p.Type, "-package", p.Name, "-output", "parquet.go"}
				args2 = []string{"-input", "types.go", "-type", p.Type, "-package", p.Name, "-output", "parquet2.go"}
			}
		}
		// the tool is normally re-run in place (go generate): its output files
		// already exist, longer than what it is about to write
		stale := []byte(strings.Repeat("// output of an earlier, longer run\n", 6000) + "stale tail: this is not Go\n")
		os.WriteFile(filepath.Join(pd, "parquet.go"), stale, 0o644)
		if p.Parquet != "" {
			os.WriteFile(filepath.Join(pd, "types.go"), stale, 0o644)
		}
		out, err := runCmd(pd, 60*time.Second, nil, cfg.Parquetgen, args1...)
		if err != nil {
			res[i].GenFail = trim(out+" "+err.Error(), 600)
			os.RemoveAll(pd)
			continue
		}
		out2, err2 := runCmd(pd, 60*time.Second, nil, cfg.Parquetgen, args2...)
		a, _ := os.ReadFile(filepath.Join(pd, "parquet.go"))
		b, _ := os.ReadFile(filepath.Join(pd, "parquet2.go"))
		if err2 != nil || !bytes.Equal(a, b) {
			res[i].NonDet = true
			res[i].GenFail = trim("second run differs: "+out2, 300)
		}
		if p.Parquet != "" {
			t1, _ := os.ReadFile(filepath.Join(pd, "types.go"))
			t2, _ := os.ReadFile(filepath.Join(pd, "types2.go"))
			if !bytes.Equal(t1, t2) {
				res[i].NonDet = true
			}
			os.Remove(filepath.Join(pd, "types2.go"))
		}
		os.Remove(filepath.Join(pd, "parquet2.go"))
		if len(a) == 0 {
			res[i].GenFail = "parquetgen exited 0 but wrote no parquet.go"
			os.RemoveAll(pd)
			continue
		}
		if p.ExternalType {
			os.WriteFile(filepath.Join(pd, "glue.go"), []byte(sut.GlueSourceImport(p.Name, p.Target, p.Type, importBase+"/"+p.Name+"/types")), 0o644)
		} else {
			os.WriteFile(filepath.Join(pd, "glue.go"), []byte(sut.GlueSource(p.Name, p.Target, p.Type)), 0o644)
		}
		if x, ok := cfg.ExtraFiles[p.Name]; ok {
			os.WriteFile(filepath.Join(pd, "extra.go"), []byte(x), 0o644)
		}
	}
	// nothing was generated: every program already has its gen-fail verdict
	generated := 0
	for i := range progs {
		if res[i].GenFail == "" || res[i].NonDet {
			if fileExists(filepath.Join(dir, progs[i].Name, "parquet.go")) {
				generated++
			}
		}
	}
	if generated == 0 {
		return res, nil
	}
	// compile verdict per package
	p := cfg.BuildP
	if p <= 0 {
		p = 4
	}
	out, _ := runCmdEnv(cfg.MCDir, 20*time.Minute, goEnv(cfg), "go", "build", "-tags", "verif", "-p", fmt.Sprint(p), "-gcflags=-e", "./"+filepath.ToSlash(cfg.RelDir)+"/...")
	if strings.TrimSpace(out) != "" {
		// split the output by "# pkg" headers
		locs := pkgHeader.FindAllStringSubmatchIndex(out, -1)
		for k, loc := range locs {
			pkg := out[loc[2]:loc[3]]
			end := len(out)
			if k+1 < len(locs) {
				end = locs[k+1][0]
			}
			name := filepath.Base(pkg)
			if i, ok := idx[name]; ok && strings.HasPrefix(pkg, importBase) {
				res[i].CompileFail = trim(out[loc[1]:end], 700)
			}
		}
		if len(locs) == 0 {
			return nil, fmt.Errorf("go build failed without package headers: %s", trim(out, 2000))
		}
	}
	// batch main over the packages that compiled
	var imports []string
	var ok []int
	for i, pr := range progs {
		if res[i].GenFail == "" && res[i].CompileFail == "" || (res[i].NonDet && res[i].CompileFail == "" && fileExists(filepath.Join(dir, pr.Name, "parquet.go"))) {
			imports = append(imports, fmt.Sprintf("\t_ %q\n", importBase+"/"+pr.Name))
			ok = append(ok, i)
		}
	}
	if len(ok) == 0 {
		return res, nil
	}
	md := filepath.Join(dir, "zmain")
	os.MkdirAll(md, 0o755)
	mainSrc := "package main\n\nimport (\n\trunner \"" + cfg.RunnerPkg + "\"\n" + strings.Join(imports, "") + ")\n\nfunc main() { runner.Main() }\n"
	os.WriteFile(filepath.Join(md, "main.go"), []byte(mainSrc), 0o644)
	bin := filepath.Join(dir, "runner.bin")
	if out, err := runCmdEnv(cfg.MCDir, 20*time.Minute, goEnv(cfg), "go", "build", "-tags", "verif", "-p", fmt.Sprint(p), "-o", bin, "./"+filepath.ToSlash(cfg.RelDir)+"/zmain"); err != nil {
		return nil, fmt.Errorf("linking the batch runner failed: %v\n%s", err, trim(out, 3000))
	}
	// run, restarting after crashes/hangs
	done := map[string]bool{}
	for attempt := 0; attempt < len(ok)+2; attempt++ {
		var skip []string
		for t := range done {
			skip = append(skip, t)
		}
		resFile := filepath.Join(dir, fmt.Sprintf("results%d.jsonl", attempt))
		curFile := filepath.Join(dir, "current")
		os.Remove(curFile)
		env := append(append(os.Environ(), cfg.Env...), "PROGRUN_OUT="+resFile, "PROGRUN_CURRENT="+curFile, "PROGRUN_SKIP="+strings.Join(skip, "\x1f"))
		to := cfg.Timeout
		if to == 0 {
			to = 5 * time.Minute
		}
		out, err := runCmdEnv(dir, to, env, bin)
		// collect
		if f, ferr := os.Open(resFile); ferr == nil {
			sc := bufio.NewScanner(f)
			sc.Buffer(make([]byte, 1<<20), 1<<26)
			for sc.Scan() {
				var r Result
				if json.Unmarshal(sc.Bytes(), &r) != nil {
					continue
				}
				for _, i := range ok {
					if progs[i].Target == r.Target {
						keepND := res[i].NonDet
						keepGF := res[i].GenFail
						r.Name = res[i].Name
						res[i] = r
						res[i].NonDet, res[i].GenFail = keepND, keepGF
						res[i].Ran = true
						done[r.Target] = true
					}
				}
			}
			f.Close()
		}
		if err == nil {
			break
		}
		cur, _ := os.ReadFile(curFile)
		ct := strings.TrimSpace(string(cur))
		if ct == "" || done[ct] {
			return nil, fmt.Errorf("batch runner failed outside any target: %v\n%s", err, trim(out, 3000))
		}
		for _, i := range ok {
			if progs[i].Target == ct {
				res[i].Crash = trim(fmt.Sprintf("%v: %s", err, lastLines(out, 12)), 900)
				res[i].Ran = true
				done[ct] = true
			}
		}
	}
	return res, nil
}

func fileExists(p string) bool {
	_, err := os.Stat(p)
	return err == nil
}

func trim(s string, n int) string {
	s = strings.TrimSpace(s)
	if len(s) > n {
		return s[:n] + "..."
	}
	return s
}

func lastLines(s string, n int) string {
	ls := strings.Split(strings.TrimSpace(s), "\n")
	// prefer the head of a Go fatal error / panic
	for i, l := range ls {
		if strings.HasPrefix(l, "fatal error:") || strings.HasPrefix(l, "panic:") || strings.HasPrefix(l, "runtime: goroutine stack exceeds") {
			end := i + n
			if end > len(ls) {
				end = len(ls)
			}
			return strings.Join(ls[i:end], " | ")
		}
	}
	if len(ls) > n {
		ls = ls[len(ls)-n:]
	}
	return strings.Join(ls, " | ")
}

func runCmd(dir string, to time.Duration, env []string, name string, args ...string) (string, error) {
	return runCmdEnv(dir, to, env, name, args...)
}

func runCmdEnv(dir string, to time.Duration, env []string, name string, args ...string) (string, error) {
	ctx, cancel := context.WithTimeout(context.Background(), to)
	defer cancel()
	cmd := exec.CommandContext(ctx, name, args...)
	cmd.Dir = dir
	if env != nil {
		cmd.Env = env
	}
	var buf bytes.Buffer
	cmd.Stdout = &buf
	cmd.Stderr = &buf
	err := cmd.Run()
	if ctx.Err() == context.DeadlineExceeded {
		return buf.String(), fmt.Errorf("timeout after %s", to)
	}
	return buf.String(), err
}
