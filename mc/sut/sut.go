// Package sut binds the harness to generated reader/writer packages.  Each
// generated package gets a small glue file (written by vrun at check time)
// that registers a Target here.
package sut

import (
	"io"
	"reflect"
	"sort"
	"sync"

	"verif/mc/refpq"
)

// Codec selects page compression.
type Codec int

const (
	Uncompressed Codec = 0
	Snappy       Codec = 1
	Gzip         Codec = 2
)

// OptStyle selects how the glue passes the writer options (see oracle.Case).
var OptStyle int

func (c Codec) String() string { return [...]string{"uncompressed", "snappy", "gzip"}[c] }

// Writer is the generated ParquetWriter behind interface{} records.
type Writer interface {
	Add(rec interface{})
	Write() error
	Close() error
}

// Reader is the generated ParquetReader.
type Reader interface {
	Next() bool
	// ScanNew scans into a fresh zero record and returns it (a struct value).
	ScanNew() interface{}
	// ScanInto scans into *T.
	ScanInto(p interface{})
	Rows() int64
	Error() error
}

// Target is one generated package.
type Target struct {
	Name string
	Type reflect.Type
	// NewWriter: pageSize <= 0 means the library default.
	NewWriter func(w io.Writer, pageSize int, codec Codec) (Writer, error)
	NewReader func(r io.ReadSeeker) (Reader, error)

	once   sync.Once
	schema *refpq.Node
}

// Schema is the reference schema derived from the Go type.
func (t *Target) Schema() *refpq.Node {
	t.once.Do(func() { t.schema = refpq.SchemaOf(t.Type) })
	return t.schema
}

var (
	mu       sync.Mutex
	registry = map[string]*Target{}
)

// Register is called from generated glue.
func Register(t *Target) {
	mu.Lock()
	defer mu.Unlock()
	registry[t.Name] = t
}

// Get returns a registered target or panics.
func Get(name string) *Target {
	mu.Lock()
	defer mu.Unlock()
	t, ok := registry[name]
	if !ok {
		panic("sut: target not generated for this check: " + name)
	}
	return t
}

// Has reports whether a target is registered.
func Has(name string) bool {
	mu.Lock()
	defer mu.Unlock()
	_, ok := registry[name]
	return ok
}

// Names lists registered targets.
func Names() []string {
	mu.Lock()
	defer mu.Unlock()
	var out []string
	for k := range registry {
		out = append(out, k)
	}
	sort.Strings(out)
	return out
}
